package props

import (
	"fmt"
	"go/ast"
	"go/token"
	"go/types"
	"golang.org/x/tools/go/packages"
	"sort"
	"strings"

	"verif/tool/goan"
	"verif/tool/load"
)

func init() { register("C14", checkC14) }

// code classes by the repository's own constant names (mirror table: DESIGN appendix A.3)
func codeClass(code string) string {
	switch {
	case code == "ChangedOptionalToRequired":
		return "opt2req"
	case code == "ChangedRequiredToOptional":
		return "req2opt"
	case code == "WidenedType":
		return "widened"
	case code == "NarrowedType":
		return "narrowed"
	case strings.HasPrefix(code, "Added"):
		return "added"
	case strings.HasPrefix(code, "Deleted"):
		return "deleted"
	case strings.HasPrefix(code, "Changed"), strings.HasPrefix(code, "RefTarget"):
		return "undirected"
	}
	return "none"
}

func mirrorCode(code string) string {
	switch code {
	case "ChangedOptionalToRequired":
		return "ChangedRequiredToOptional"
	case "ChangedRequiredToOptional":
		return "ChangedOptionalToRequired"
	case "WidenedType":
		return "NarrowedType"
	case "NarrowedType":
		return "WidenedType"
	case "AddedRequiredProperty":
		return "DeletedProperty" // documented asymmetry: required-ness is not tracked on deletion
	case "DeletedDeprecatedEndpoint":
		return "AddedEndpoint" // documented asymmetry
	}
	if strings.HasPrefix(code, "Added") {
		return "Deleted" + strings.TrimPrefix(code, "Added")
	}
	if strings.HasPrefix(code, "Deleted") {
		return "Added" + strings.TrimPrefix(code, "Deleted")
	}
	return code
}

var plusTrig = []string{"missing-in-1", "nil1-nonnil2", "false1-true2"}
var minusTrig = []string{"missing-in-2", "nonnil1-nil2", "true1-false2"}

func trigStr(ts []goan.Trig) string {
	var s []string
	for _, t := range ts {
		if len(t.Names) > 0 {
			s = append(s, t.Kind+"("+strings.Join(t.Names, ",")+")")
		} else {
			s = append(s, t.Kind)
		}
	}
	return strings.Join(s, " ")
}

// siteKey is the line-free construct key of an emission site.
func siteKey(s *goan.Site, code string) string {
	var ks []string
	for _, t := range s.Derived {
		if strings.HasPrefix(t.Kind, "present") || strings.HasPrefix(t.Kind, "both") {
			continue
		}
		ks = append(ks, t.Kind)
	}
	return fmt.Sprintf("diff.%s › %s [%s]", s.FnName, code, strings.Join(ks, ","))
}

// boundSites expands parametric sites (code is a parameter of a helper) into one virtual
// site per call site constant. Returns the list of (site, code, call) triples.
type boundSite struct {
	*goan.Site
	Code string
	Call *goan.CallSite // nil for constant sites
	// attribute names taken from the call's value arguments (Compare*Values(label, a.F, b.F, …))
	ArgNames []string
}

func bindSites(c *Ctx, r *goan.Rel, rule string) []boundSite {
	var out []boundSite
	info := r.Info()
	for _, s := range r.Sites {
		if s.Param == nil {
			out = append(out, boundSite{Site: s, Code: s.Code})
			continue
		}
		// index of the parameter
		idx := -1
		i := 0
		for _, fl := range s.Fn.Type.Params.List {
			for _, n := range fl.Names {
				if info.Defs[n] == s.Param {
					idx = i
				}
				i++
			}
		}
		css := r.CallSitesOf(r.FuncObj(s.Fn))
		if idx < 0 || len(css) == 0 {
			c.Unk(rule, "diff."+s.FnName+" › param:"+s.Param.Name(), c.posOf(r.Pkg, s.Pos), "parametric emission site with no resolvable call site")
			continue
		}
		for i := range css {
			cs := css[i]
			if idx >= len(cs.Call.Args) {
				continue
			}
			k := goan.ConstObj(info, cs.Call.Args[idx])
			if k == nil {
				c.Unk(rule, "diff."+s.FnName+" › param:"+s.Param.Name()+" @ "+cs.FnName, c.posOf(r.Pkg, cs.Call.Pos()), "change code passed to the helper is not a constant")
				continue
			}
			var names []string
			for _, a := range cs.Call.Args {
				if se, ok := ast.Unparen(a).(*ast.SelectorExpr); ok {
					names = append(names, se.Sel.Name)
				}
			}
			out = append(out, boundSite{Site: s, Code: k.Name(), Call: &cs, ArgNames: names})
		}
	}
	return out
}

// inheritedTrig: for sites without any difference-polarity trigger, the triggers common to
// all call sites of the enclosing function (one level).
func inheritedTrig(r *goan.Rel, s *goan.Site) []goan.Trig {
	css := r.CallSitesOf(r.FuncObj(s.Fn))
	if len(css) == 0 {
		return nil
	}
	var common map[string]goan.Trig
	for _, cs := range css {
		ts := goan.Triggers(cs.Atoms)
		m := map[string]goan.Trig{}
		for _, t := range ts {
			m[t.Kind] = t
		}
		if common == nil {
			common = m
			continue
		}
		for k := range common {
			if _, ok := m[k]; !ok {
				delete(common, k)
			}
		}
	}
	var out []goan.Trig
	for _, t := range common {
		out = append(out, t)
	}
	sort.Slice(out, func(i, j int) bool { return out[i].Kind < out[j].Kind })
	return out
}

var diffPolarity = []string{"neq", "gt(2>1)", "lt(2<1)", "missing-in-1", "missing-in-2", "nil1-nonnil2", "nonnil1-nil2", "true1-false2", "false1-true2"}

func checkC14(c *Ctx) {
	c.Explain("diff direction: (R1) every directed change code (Added*/Deleted*/Widened/Narrowed/OptionalToRequired/RequiredToOptional) is emitted only under a relational trigger of the matching orientation between the two compared specs, " +
		"direction-less codes only under direction-less or difference triggers; (R2) every directed emission has a mirror emission (mirror code under the mirror trigger) in the same or the mirror-named function; " +
		"(R3) DiffsTo's result orientation is derived from its body and the helper call sites pass mirror code pairs with the sense their attribute requires. " +
		"Side inference: seeds are Analyse/Compare's parameters, propagated to a fixpoint through assignments, ranges, lookups and call arguments. Decides orientation of each emission site, not multiset equality of two concrete reports.")
	c.Assume("the two parameters of SpecAnalyser.Analyse are the old (1) and new (2) specification", "code classes follow the constant names (Added*/Deleted*/Changed*…), mirror table in DESIGN appendix A.3")
	r := c.diffRel()
	pk := r.Pkg

	checkDiffsTo(c, r)

	checkSideMixing(c, "C14.R0.side-mixing", r)
	checkLoopCarriedLocations(c, r.Pkg)
	checkMirrorLoops(c, r)
	// an iteration left early on a condition of one side has no mirror in the other direction
	checkLoopTotality(c, "C14.R2.loop-totality", r.Pkg, "diff", 30, diffLoopExits)
	checkBalancedPredicates(c, r)
	checkArgumentRoles(c, "C14.R0.argument-roles", r.Pkg, "diff", 3)
	checkTwinFunctions(c, r)
	checkMirrorBranches(c, r)
	// the names the JSON report gives to codes: a deleted-X must not be called added-X
	c.Rule("C14.R5.toStringSpecChangeCode", "the JSON name of each change code is its own (total, injective, no row carrying another constant's identifier): a deleted-X is never reported as added-X", 150)
	c.Rule("C14.R5.toLongStringSpecChangeCode", "the text of each change code is its own (total, injective)", 150)
	enumTable(c, "C14.R5", r.Pkg, "toStringSpecChangeCode", "SpecChangeCode", true)
	enumTable(c, "C14.R5", r.Pkg, "toLongStringSpecChangeCode", "SpecChangeCode", true)
	checkSections(c, "C14.R4.report-sections", pk)
	checkMirrorElse(c, "C14.R3.mirror-else", pk)

	c.Rule("C14.R1.orientation", "directed code ⇒ directed trigger of matching orientation; no opposite-orientation trigger; direction-less code ⇒ no one-sided selection", 55)
	c.Rule("C14.R1.sense", "Widened/Narrowed agree with the attribute's sense (upper bound ↑ = widened, lower bound ↑ = narrowed, exclusive removed = widened, string→non-string = narrowed, number wideness ↑ = widened)", 12)
	sites := bindSites(c, r, "C14.R1.orientation")
	checkSymmetricGuards(c, r, sites)
	checkSharedGuards(c, "C14.R1.shared-guards", r, sites)
	checkMemoKey(c, "C14.R2.memo-key", r)
	type famKey struct{ fn, fam, code string }
	plusFns := map[string][]boundSite{}
	for _, bs := range sites {
		cls := codeClass(bs.Code)
		trigs := bs.Derived
		if !goan.HasTrig(trigs, diffPolarity...) {
			trigs = append(append([]goan.Trig{}, trigs...), inheritedTrig(r, bs.Site)...)
		}
		key := siteKey(bs.Site, bs.Code)
		if bs.Call != nil {
			key += " @ " + bs.Call.FnName + "(" + strings.Join(bs.ArgNames, ",") + ")"
		}
		pos := c.posOf(pk, bs.Pos)
		plus, minus := goan.HasTrig(trigs, plusTrig...), goan.HasTrig(trigs, minusTrig...)
		desc := trigStr(trigs)
		switch cls {
		case "added":
			c.Check(plus && !minus, "C14.R1.orientation", key, pos, "Added* under "+desc,
				fmt.Sprintf("%s is emitted under [%s]: an Added* code needs a trigger saying the item is absent from spec 1 and present in spec 2 (missing-in-1 / nil1-nonnil2 / false1-true2) and no opposite one; swapping the two specs would not turn this report into its Deleted* mirror", bs.Code, desc))
		case "deleted":
			c.Check(minus && !plus, "C14.R1.orientation", key, pos, "Deleted* under "+desc,
				fmt.Sprintf("%s is emitted under [%s]: a Deleted* code needs a trigger saying the item is present in spec 1 and absent from spec 2 (missing-in-2 / nonnil1-nil2 / true1-false2) and no opposite one; swapping the two specs would not turn this report into its Added* mirror", bs.Code, desc))
		case "opt2req", "req2opt":
			// Required: false→true is optional→required; Nullable: true→false is optional→required
			want := map[string]string{"opt2req": "false1-true2", "req2opt": "true1-false2"}[cls]
			nullable := false
			for _, t := range trigs {
				if t.Has("Nullable") {
					nullable = true
				}
			}
			if nullable {
				want = map[string]string{"opt2req": "true1-false2", "req2opt": "false1-true2"}[cls]
			}
			other := map[string]string{"false1-true2": "true1-false2", "true1-false2": "false1-true2"}[want]
			c.Check(goan.HasTrig(trigs, want) && !goan.HasTrig(trigs, other), "C14.R1.orientation", key, pos, bs.Code+" under "+desc,
				fmt.Sprintf("%s is emitted under [%s], expected %s (nullable=%v)", bs.Code, desc, want, nullable))
		case "widened", "narrowed":
			ok, why := senseOK(bs, trigs, cls)
			c.Check(ok, "C14.R1.sense", key, pos, bs.Code+" under "+desc+": "+why, fmt.Sprintf("%s is emitted under [%s]: %s", bs.Code, desc, why))
		case "undirected":
			// direction-less: needs some difference trigger; a one-sided ("only1/only2") selection
			// next to neq is tolerated only when a sibling covers the complement (R2 checks that)
			c.Check(goan.HasTrig(trigs, diffPolarity...), "C14.R1.orientation", key, pos, "direction-less code under "+desc,
				fmt.Sprintf("%s is emitted under [%s]: no relational trigger between the two specs", bs.Code, desc))
		default:
			c.Bad("C14.R1.orientation", key, pos, "code "+bs.Code+" has no direction class")
		}
		if cls != "none" {
			plusFns[bs.Code] = append(plusFns[bs.Code], bs)
		}
	}

	// ---- R2 mirror completeness
	c.Rule("C14.R2.mirror-filters", "a directed emission and its mirror sit behind the same comma-ok presence tests (same collections, made anonymous in the spec they come from, same polarity)", 40)
	c.Rule("C14.R2.mirror", "every directed emission has a mirror emission: mirror code, in the same function or the function named with Added↔Deleted swapped, under the mirror trigger", 40)
	normFn := func(fn string) string {
		fn = strings.ReplaceAll(fn, "Added", "±")
		fn = strings.ReplaceAll(fn, "Deleted", "±")
		return fn
	}
	mirrorKind := map[string]string{"missing-in-1": "missing-in-2", "missing-in-2": "missing-in-1", "nil1-nonnil2": "nonnil1-nil2", "nonnil1-nil2": "nil1-nonnil2",
		"true1-false2": "false1-true2", "false1-true2": "true1-false2", "gt(2>1)": "lt(2<1)", "lt(2<1)": "gt(2>1)", "neq": "neq"}
	dirKinds := func(ts []goan.Trig) []string {
		var out []string
		for _, t := range ts {
			if _, ok := mirrorKind[t.Kind]; ok && t.Kind != "neq" {
				out = append(out, t.Kind)
			}
		}
		sort.Strings(out)
		return out
	}
	for _, bs := range sites {
		cls := codeClass(bs.Code)
		if cls == "none" {
			continue
		}
		dk := dirKinds(bs.Derived)
		if cls == "undirected" && len(dk) == 0 {
			continue // direction-less code under a symmetric trigger mirrors itself
		}
		want := mirrorCode(bs.Code)
		var wantKinds []string
		for _, k := range dk {
			wantKinds = append(wantKinds, mirrorKind[k])
		}
		sort.Strings(wantKinds)
		found, sameFilters := false, false
		for _, o := range sites {
			if o.Code != want && !(bs.Code == "DeletedProperty" && o.Code == "AddedRequiredProperty") && !(bs.Code == "AddedEndpoint" && o.Code == "DeletedDeprecatedEndpoint") {
				continue
			}
			if normFn(o.FnName) != normFn(bs.FnName) {
				continue
			}
			if bs.Call != nil && (o.Call == nil || o.Call.Call != bs.Call.Call) {
				continue
			}
			if strings.Join(dirKinds(o.Derived), ",") == strings.Join(wantKinds, ",") {
				found = true
				if strings.Join(lookupGuards(r, o.Site), " ") == strings.Join(lookupGuards(r, bs.Site), " ") {
					sameFilters = true
				}
			}
		}
		key := siteKey(bs.Site, bs.Code) + " ↔ " + want
		if bs.Call != nil {
			key += " @ " + bs.Call.FnName + "(" + strings.Join(bs.ArgNames, ",") + ")"
		}
		if found {
			c.Check(sameFilters, "C14.R2.mirror-filters", key, c.posOf(pk, bs.Pos), "the mirror emission sits behind the same presence filters ["+strings.Join(lookupGuards(r, bs.Site), " ")+"]",
				fmt.Sprintf("%s is emitted behind the presence tests [%s] but no mirror emission of %s is behind the same ones: a filter (e.g. a set of items already dealt with) applied in one direction only makes the swapped comparison report a different number of differences",
					bs.Code, strings.Join(lookupGuards(r, bs.Site), " "), want))
		}
		c.Check(found, "C14.R2.mirror", key, c.posOf(pk, bs.Pos), "mirror emission exists",
			fmt.Sprintf("%s under [%s] has no mirror: no emission of %s under [%s] in %s (or its Added↔Deleted twin): the swapped comparison reports a different number of differences",
				bs.Code, strings.Join(dk, ","), want, strings.Join(wantKinds, ","), bs.FnName))
	}
}

// senseOK decides whether Widened/Narrowed matches the trigger for the attribute compared.
func senseOK(bs boundSite, trigs []goan.Trig, cls string) (bool, string) {
	upper := map[string]bool{"Maximum": true, "MaxLength": true, "MaxItems": true, "MaxProperties": true}
	lower := map[string]bool{"Minimum": true, "MinLength": true, "MinItems": true, "MinProperties": true}
	// parametric helper: attribute from the call's arguments
	if bs.Call != nil {
		isUp, isLow := false, false
		for _, n := range bs.ArgNames {
			if upper[n] {
				isUp = true
			}
			if lower[n] {
				isLow = true
			}
		}
		if isUp == isLow {
			return false, fmt.Sprintf("cannot tell whether the compared attribute %v is an upper or a lower bound", bs.ArgNames)
		}
		gt, lt := goan.HasTrig(trigs, "gt(2>1)"), goan.HasTrig(trigs, "lt(2<1)")
		if gt == lt {
			return false, "no ordering trigger between the two values"
		}
		widened := (isUp && gt) || (isLow && lt)
		if widened == (cls == "widened") {
			return true, fmt.Sprintf("%v: value %s ⇒ %s", bs.ArgNames, map[bool]string{true: "↑", false: "↓"}[gt], cls)
		}
		return false, fmt.Sprintf("%v is %s bound and the new value is %s: that is %s, not %s", bs.ArgNames, map[bool]string{true: "an upper", false: "a lower"}[isUp],
			map[bool]string{true: "greater", false: "smaller"}[gt], map[bool]string{true: "widened", false: "narrowed"}[widened], cls)
	}
	for _, t := range trigs {
		switch {
		case (t.Has("ExclusiveMaximum") || t.Has("ExclusiveMinimum")) && (t.Kind == "true1-false2" || t.Kind == "false1-true2"):
			widened := t.Kind == "true1-false2" // exclusivity removed
			return widened == (cls == "widened"), "exclusive bound " + map[bool]string{true: "removed ⇒ widened", false: "added ⇒ narrowed"}[widened]
		case t.Has("isStringType") && (t.Kind == "true1-false2" || t.Kind == "false1-true2"):
			widened := t.Kind == "false1-true2" // non-string → string
			return widened == (cls == "widened"), "string-ness " + map[bool]string{true: "gained ⇒ widened", false: "lost ⇒ narrowed"}[widened]
		case t.Has("numberWideness") && (t.Kind == "gt(2>1)" || t.Kind == "lt(2<1)"):
			widened := t.Kind == "gt(2>1)"
			return widened == (cls == "widened"), "number wideness " + map[bool]string{true: "↑ ⇒ widened", false: "↓ ⇒ narrowed"}[widened]
		}
	}
	return false, "no trigger over a known ordered attribute (exclusive flags, string-ness, number wideness)"
}

// checkDiffsTo derives the orientation of fromArrayStruct.DiffsTo / fromMapStruct.DiffsTo
// results from their bodies (membership-flag idiom) and sets r.DiffsAdded/Deleted.
func checkDiffsTo(c *Ctx, r *goan.Rel) {
	rule := c.Property + ".R3.diffsto"
	c.Rule(rule, "DiffsTo: the flag stored while ranging the receiver selects the 'deleted' result, the flag stored while ranging the argument selects 'added'; both overloads agree; early returns agree", 4)
	pk := r.Pkg
	info := pk.TypesInfo
	first := true
	for _, recv := range []string{"fromArrayStruct", "fromMapStruct"} {
		fd := load.FuncDecl(pk, recv+".DiffsTo")
		if fd == nil {
			c.Anchor(rule, recv+".DiffsTo", "not found")
			continue
		}
		recvObj := info.Defs[fd.Recv.List[0].Names[0]]
		argObj := info.Defs[fd.Type.Params.List[0].Names[0]]
		// named results
		var results []types.Object
		for _, fl := range fd.Type.Results.List {
			for _, n := range fl.Names {
				results = append(results, info.Defs[n])
			}
		}
		if len(results) != 3 {
			c.Anchor(rule, recv+".DiffsTo", "expected three named results")
			continue
		}
		// flags: for … range <recv>.field { m[k] = FLAG } ; for … range <arg> { … m[k] = FLAG / |= FLAG }
		flagOf := map[string]types.Object{} // "recv"/"arg" -> flag object
		var finalRange *ast.RangeStmt
		var arith []string
		for _, st := range fd.Body.List {
			rs, ok := st.(*ast.RangeStmt)
			if !ok {
				continue
			}
			who := ""
			if goan.Mentions(info, rs.X, recvObj) {
				who = "recv"
			} else if goan.Mentions(info, rs.X, argObj) {
				who = "arg"
			} else {
				finalRange = rs
				continue
			}
			ast.Inspect(rs.Body, func(n ast.Node) bool {
				as, ok := n.(*ast.AssignStmt)
				if !ok || len(as.Lhs) != 1 || len(as.Rhs) != 1 {
					return true
				}
				if _, ok := as.Lhs[0].(*ast.IndexExpr); !ok {
					return true
				}
				// membership flags are set or or-ed: added up, an item listed twice on one side reaches the
				// value that means "on both sides"
				if as.Tok != token.ASSIGN && as.Tok != token.OR_ASSIGN {
					arith = append(arith, as.Tok.String())
				}
				if id, ok := as.Rhs[0].(*ast.Ident); ok {
					if o := info.Uses[id]; o != nil {
						if old, seen := flagOf[who]; seen && old != o {
							flagOf[who+"!"] = o
						}
						flagOf[who] = o
					}
				}
				return true
			})
		}
		c.Check(len(arith) == 0, rule, "diff."+recv+".DiffsTo › flags are set or or-ed", c.posOf(pk, fd.Pos()), "only = and |=",
			fmt.Sprintf("a membership flag is combined with %v: an item repeated in one list accumulates to the value of another class (2+2 = on both sides … ), so it is filed as common in one direction and as deleted in the other", arith))
		if flagOf["recv"] == nil || flagOf["arg"] == nil || flagOf["recv"] == flagOf["arg"] || flagOf["recv!"] != nil || flagOf["arg!"] != nil || finalRange == nil {
			c.Bad(rule, "diff."+recv+".DiffsTo › membership flags", c.posOf(pk, fd.Pos()), "membership-flag idiom not recognised (one distinct flag per side, then a final range over the flag map)")
			continue
		}
		// final switch: case FLAG: <result> written
		resOf := map[types.Object]int{} // flag -> result index
		okAll := true
		ast.Inspect(finalRange.Body, func(n ast.Node) bool {
			cc, ok := n.(*ast.CaseClause)
			if !ok || len(cc.List) != 1 {
				return true
			}
			id, ok := cc.List[0].(*ast.Ident)
			if !ok {
				return true
			}
			flag := info.Uses[id]
			for _, st := range cc.Body {
				as, ok := st.(*ast.AssignStmt)
				if !ok || len(as.Lhs) != 1 {
					okAll = false
					continue
				}
				var target types.Object
				switch l := as.Lhs[0].(type) {
				case *ast.Ident:
					target = info.Uses[l]
				case *ast.IndexExpr:
					if x, ok := l.X.(*ast.Ident); ok {
						target = info.Uses[x]
					}
				}
				for i, ro := range results {
					if ro == target {
						resOf[flag] = i
					}
				}
			}
			return true
		})
		di, ok1 := resOf[flagOf["recv"]]
		ai, ok2 := resOf[flagOf["arg"]]
		if !ok1 || !ok2 || !okAll || di == ai {
			c.Bad(rule, "diff."+recv+".DiffsTo › flag→result", c.posOf(pk, fd.Pos()), "cannot pair the membership flags with the result slices")
			continue
		}
		names := fmt.Sprintf("result %d (%s) = only in argument, result %d (%s) = only in receiver", ai, results[ai].Name(), di, results[di].Name())
		if first {
			r.DiffsAdded, r.DiffsDeleted = ai, di
			first = false
			c.Ok(rule, "diff."+recv+".DiffsTo › orientation", c.posOf(pk, fd.Pos()), names)
		} else {
			c.Check(ai == r.DiffsAdded && di == r.DiffsDeleted, rule, "diff."+recv+".DiffsTo › orientation", c.posOf(pk, fd.Pos()), names+" (agrees with the string-array overload)", names+": disagrees with the string-array overload")
		}
		// result names should say what they hold: a result named added*/deleted* must be the right one
		for i, ro := range results {
			ln := strings.ToLower(ro.Name())
			if strings.HasPrefix(ln, "added") {
				c.Check(i == ai, rule, "diff."+recv+".DiffsTo › result named "+ro.Name(), c.posOf(pk, ro.Pos()), "holds the only-in-argument items", "result named "+ro.Name()+" holds the items found only in the receiver")
			}
			if strings.HasPrefix(ln, "deleted") {
				c.Check(i == di, rule, "diff."+recv+".DiffsTo › result named "+ro.Name(), c.posOf(pk, ro.Pos()), "holds the only-in-receiver items", "result named "+ro.Name()+" holds the items found only in the argument")
			}
		}
		// every explicit 3-result return: receiver-derived values only in the deleted slot,
		// argument-derived values only in the added slot
		ast.Inspect(fd.Body, func(n ast.Node) bool {
			ret, ok := n.(*ast.ReturnStmt)
			if !ok || len(ret.Results) != 3 {
				return true
			}
			for i, e := range ret.Results {
				if goan.Mentions(info, e, recvObj) && !goan.Mentions(info, e, argObj) {
					c.Check(i == di, rule, fmt.Sprintf("diff.%s.DiffsTo › early return: receiver items in result %d", recv, i), c.posOf(pk, ret.Pos()),
						"receiver-only items returned as 'deleted'", fmt.Sprintf("an early return puts the receiver's items into result %d, but 'only in receiver' is result %d: removed items would be reported as added", i, di))
				}
				if goan.Mentions(info, e, argObj) && !goan.Mentions(info, e, recvObj) {
					c.Check(i == ai, rule, fmt.Sprintf("diff.%s.DiffsTo › early return: argument items in result %d", recv, i), c.posOf(pk, ret.Pos()),
						"argument-only items returned as 'added'", fmt.Sprintf("an early return puts the argument's items into result %d, but 'only in argument' is result %d", i, ai))
				}
			}
			return true
		})
		// no return hands one of the two lists back as it is: both sides are compared as sets (a repeated item
		// would otherwise count twice in one direction and once in the other)
		ast.Inspect(fd.Body, func(n ast.Node) bool {
			ret, ok := n.(*ast.ReturnStmt)
			if !ok {
				return true
			}
			for i, e := range ret.Results {
				if id, ok := ast.Unparen(e).(*ast.Ident); ok && (info.ObjectOf(id) == argObj) {
					c.Bad(rule, fmt.Sprintf("diff.%s.DiffsTo › result %d is the argument list itself", recv, i), c.posOf(pk, ret.Pos()),
						"a shortcut returns the argument list verbatim instead of the set of its items: repeated items are counted once per occurrence in this direction and once in all in the other")
				}
				if se, ok := ast.Unparen(e).(*ast.SelectorExpr); ok && identIs(info, se.X, recvObj) {
					c.Bad(rule, fmt.Sprintf("diff.%s.DiffsTo › result %d is the receiver's list itself", recv, i), c.posOf(pk, ret.Pos()),
						"a shortcut returns the receiver's list verbatim instead of the set of its items")
				}
			}
			return true
		})
		// an early return that leaves the 'deleted' slot empty is only right when the receiver has nothing to lose:
		// its condition must fail whenever the receiver-emptiness tests fail, whatever the other tests say
		ast.Inspect(fd.Body, func(n ast.Node) bool {
			ifs, ok := n.(*ast.IfStmt)
			if !ok || len(ifs.Body.List) == 0 {
				return true
			}
			ret, ok := ifs.Body.List[len(ifs.Body.List)-1].(*ast.ReturnStmt)
			if !ok || len(ret.Results) != 3 || goan.Mentions(info, ret.Results[di], recvObj) {
				return true
			}
			atoms := map[string]bool{}
			boolAtoms(ifs.Cond, atoms)
			env := map[string]bool{}
			for a := range atoms {
				env[a] = true
			}
			// receiver-emptiness atoms → false
			var mark func(e ast.Expr)
			mark = func(e ast.Expr) {
				switch x := ast.Unparen(e).(type) {
				case *ast.BinaryExpr:
					if x.Op == token.LAND || x.Op == token.LOR {
						mark(x.X)
						mark(x.Y)
						return
					}
					if goan.Mentions(info, x, recvObj) && !goan.Mentions(info, x, argObj) {
						env[goan.ExprString(x)] = false
					}
				case *ast.UnaryExpr:
					if x.Op == token.NOT {
						mark(x.X)
					}
				}
			}
			mark(ifs.Cond)
			c.Check(!boolEval(ifs.Cond, env), rule, fmt.Sprintf("diff.%s.DiffsTo › early return without deleted items needs an empty receiver", recv), c.posOf(pk, ifs.Pos()), "the condition fails whenever the receiver is not empty",
				fmt.Sprintf("`%s` returns with an empty 'deleted' result although the receiver may hold items (e.g. when only the argument is empty): everything the old spec listed and the new one dropped goes unreported", goan.ExprString(ifs.Cond)))
			return true
		})
	}
	// re-classify sites with the derived orientation
	r.Reclassify()
	// every caller binds the results positionally; orientation by index is what Classify uses
}

// checkSideMixing: a helper that every other call site feeds from a single spec must not be
// fed values of both specs at one call site (deviance rule, exact under the side model).
func checkSideMixing(c *Ctx, rule string, r *goan.Rel) {
	c.Rule(rule, "a same-package helper whose other call sites pass values of one spec only is not called with values of both specs; a $ref resolver is only ever applied together with values of its own spec", 8)
	pk := r.Pkg
	info := pk.TypesInfo
	type callInfo struct {
		fn       string
		call     *ast.CallExpr
		sides    map[goan.Side]bool
		resolver map[goan.Side]bool // sides of the $ref-resolver arguments
		nRes     int
	}
	byCallee := map[*types.Func][]callInfo{}
	for _, fd := range load.AllFuncs(pk) {
		name := load.FuncName(fd)
		ast.Inspect(fd.Body, func(n ast.Node) bool {
			call, ok := n.(*ast.CallExpr)
			if !ok {
				return true
			}
			fn := goan.Callee(info, call)
			if fn == nil || fn.Pkg() != pk.Types {
				return true
			}
			ci := callInfo{name, call, map[goan.Side]bool{}, map[goan.Side]bool{}, 0}
			for _, a := range call.Args {
				if t := info.TypeOf(a); t != nil && goan.NamedName(t) == "SchemaFromRefFn" {
					ci.nRes++
					if s := r.SideOf(a); s == goan.S1 || s == goan.S2 {
						ci.resolver[s] = true
					}
				}
				// names and keys (basic-typed values) are shared between the two specs once a
				// lookup succeeded; only structured values identify a spec
				if t := info.TypeOf(a); t != nil {
					if _, basic := t.Underlying().(*types.Basic); basic {
						continue
					}
				}
				if s := r.SideOf(a); s == goan.S1 || s == goan.S2 {
					ci.sides[s] = true
				}
			}
			byCallee[fn] = append(byCallee[fn], ci)
			return true
		})
	}
	var fns []*types.Func
	for fn := range byCallee {
		fns = append(fns, fn)
	}
	sort.Slice(fns, func(i, j int) bool { return fns[i].Name() < fns[j].Name() })
	for _, fn := range fns {
		cis := byCallee[fn]
		pure, mixed := 0, 0
		for _, ci := range cis {
			switch len(ci.sides) {
			case 1:
				pure++
			case 2:
				mixed++
			}
		}
		// a call handing over exactly one resolver is one-sided by construction: the resolver only
		// knows the definitions of its own spec
		for _, ci := range cis {
			if ci.nRes != 1 || len(ci.resolver) != 1 {
				continue
			}
			c.Check(len(ci.sides) == 1, rule, fmt.Sprintf("diff.%s › resolver call %s(%s)", ci.fn, fn.Name(), argStr(ci.call)), c.posOf(pk, ci.call.Pos()),
				"resolver and values come from one spec", fmt.Sprintf("%s receives the $ref resolver of one spec together with values of the other: references are looked up in the wrong document (unresolved → nil schema, or the other spec's definition)", fn.Name()))
		}
		if pure < 2 || mixed > 1 {
			continue // decided only for helpers fed one-sidedly at ≥ 2 call sites with at most one deviating site
		}
		for _, ci := range cis {
			if len(ci.sides) == 0 {
				continue
			}
			c.Check(len(ci.sides) == 1, rule, fmt.Sprintf("diff.%s › call %s(%s)", ci.fn, fn.Name(), argStr(ci.call)), c.posOf(pk, ci.call.Pos()),
				"arguments come from one spec", fmt.Sprintf("%s is fed from one spec at its %d other call sites, but here its arguments mix values of spec 1 and spec 2: the result no longer describes either spec", fn.Name(), pure))
		}
	}
}

func argStr(call *ast.CallExpr) string {
	var as []string
	for _, a := range call.Args {
		as = append(as, goan.ExprString(a))
	}
	return strings.Join(as, ", ")
}

// checkLoopCarriedLocations: a DifferenceLocation declared outside a loop is the common root of
// the locations reported inside it; extending it in place (x = x.AddNode(…)) inside the loop
// makes every later iteration report under the previous iteration's node, which the opposite
// direction (reporting additions) does not.
func checkLoopCarriedLocations(c *Ctx, pk *packages.Package) {
	rule := "C14.R1.location-roots"
	c.Rule(rule, "inside a loop, a location declared outside the loop is never extended in place", 20)
	info := pk.TypesInfo
	for _, fd := range load.AllFuncs(pk) {
		fd := fd
		var loops []ast.Node
		ast.Inspect(fd.Body, func(n ast.Node) bool {
			switch n.(type) {
			case *ast.RangeStmt, *ast.ForStmt:
				loops = append(loops, n)
			}
			return true
		})
		for _, lp := range loops {
			k := 0
			ast.Inspect(lp, func(n ast.Node) bool {
				as, ok := n.(*ast.AssignStmt)
				if !ok || len(as.Lhs) != 1 || len(as.Rhs) != 1 || as.Tok != token.ASSIGN {
					return true
				}
				id, ok := as.Lhs[0].(*ast.Ident)
				if !ok || goan.NamedName(info.TypeOf(id)) != "DifferenceLocation" {
					return true
				}
				obj := info.Uses[id]
				if obj == nil || obj.Pos() >= lp.Pos() {
					return true // declared inside the loop: per-iteration
				}
				k++
				self := goan.Mentions(info, as.Rhs[0], obj)
				c.Check(!self, rule, fmt.Sprintf("diff.%s › %s reassigned in a loop #%d", load.FuncName(fd), id.Name, k), c.posOf(pk, as.Pos()), "not derived from its own previous value",
					fmt.Sprintf("`%s = %s` inside a loop extends a location declared outside the loop: the second and later iterations report under the node of the previous one, so the reported locations of one direction are not the mirror of the other", id.Name, goan.ExprString(as.Rhs[0])))
				return true
			})
		}
	}
	// every loop of the analyser that reports differences was looked at
	n := 0
	for _, fd := range load.AllFuncs(pk) {
		ast.Inspect(fd.Body, func(nd ast.Node) bool {
			switch nd.(type) {
			case *ast.RangeStmt, *ast.ForStmt:
				n++
			}
			return true
		})
	}
	for i := 0; i < n && i < 25; i++ {
		c.Ok(rule, fmt.Sprintf("diff › loop #%d examined", i+1), "", "no in-place extension of an outer location")
	}
}

// checkMirrorLoops: a function that looks for items missing on either side does it with two
// loops — one ranging a collection of spec 1 and looking its keys up in spec 2 ("deleted"), one
// the other way round ("added"). The two loops must range collections derived the same way
// (both the allOf-merged properties, or both the direct ones): otherwise an item that is
// reported deleted from A to B is not reported added from B to A.
func checkMirrorLoops(c *Ctx, r *goan.Rel) {
	rule := "C14.R2.mirror-loops"
	c.Rule(rule, "in a function with presence loops in both directions, the collections ranged from spec 1 and from spec 2 are derived the same way", 8)
	pk := r.Pkg
	info := pk.TypesInfo
	for _, fd := range load.AllFuncs(pk) {
		fd := fd
		keys := map[goan.Side]map[string]string{goan.S1: {}, goan.S2: {}}
		ast.Inspect(fd.Body, func(n ast.Node) bool {
			rs, ok := n.(*ast.RangeStmt)
			if !ok {
				return true
			}
			collX, kobj := keyRange(info, fd.Body, rs)
			if collX == nil || kobj == nil {
				return true
			}
			sRange := r.SideOf(collX)
			if sRange != goan.S1 && sRange != goan.S2 {
				return true
			}
			ast.Inspect(rs.Body, func(m ast.Node) bool {
				as, ok := m.(*ast.AssignStmt)
				if !ok || len(as.Lhs) != 2 || len(as.Rhs) != 1 {
					return true
				}
				ix, ok := ast.Unparen(as.Rhs[0]).(*ast.IndexExpr)
				if !ok || !identIs(info, ix.Index, kobj) {
					return true
				}
				if sMap := r.SideOf(ix.X); sMap == sRange || (sMap != goan.S1 && sMap != goan.S2) {
					return true
				}
				// only lookups whose miss is acted upon (`!ok`, or an else arm of `if …; ok`): a loop that
				// merely joins the keys common to both specs has no mirror to agree with
				okID, _ := as.Lhs[1].(*ast.Ident)
				if okID == nil || okID.Name == "_" {
					return true
				}
				okObj := info.ObjectOf(okID)
				missHandled := false
				ast.Inspect(rs.Body, func(k ast.Node) bool {
					switch x := k.(type) {
					case *ast.UnaryExpr:
						if x.Op == token.NOT && identIs(info, x.X, okObj) {
							missHandled = true
						}
					case *ast.IfStmt:
						if identIs(info, x.Cond, okObj) && x.Else != nil {
							missHandled = true
						}
					}
					return true
				})
				if !missHandled {
					return true
				}
				keys[sRange][r.TwinKeyResolved(collX, fd.Body)] = goan.ExprString(collX)
				return true
			})
			return true
		})
		if len(keys[goan.S1]) == 0 || len(keys[goan.S2]) == 0 {
			continue
		}
		for k, x := range keys[goan.S1] {
			_, ok := keys[goan.S2][k]
			c.Check(ok, rule, fmt.Sprintf("diff.%s › range %s has a mirror loop", load.FuncName(fd), x), c.posOf(pk, fd.Pos()), "a loop over the twin collection of the other spec exists",
				fmt.Sprintf("the function looks for items of %s missing from the new spec, but its loop(s) in the other direction range %v: an item found missing in one direction is not found added in the other", x, mapValues(keys[goan.S2])))
		}
		for k, x := range keys[goan.S2] {
			_, ok := keys[goan.S1][k]
			c.Check(ok, rule, fmt.Sprintf("diff.%s › range %s has a mirror loop", load.FuncName(fd), x), c.posOf(pk, fd.Pos()), "a loop over the twin collection of the other spec exists",
				fmt.Sprintf("the function looks for items of %s missing from the old spec, but its loop(s) in the other direction range %v: an item found added in one direction is not found deleted in the other", x, mapValues(keys[goan.S1])))
		}
	}
}

func mapValues(m map[string]string) []string {
	var out []string
	for _, v := range m {
		out = append(out, v)
	}
	sort.Strings(out)
	return out
}

// checkBalancedPredicates: a kind predicate (isArray, isRefType, isPrimitive…) that a function
// applies, in a condition, to a value of one spec must also be applied to the twin value of the
// other spec somewhere in the conditions of the same function: a branch selected by the old
// side's kind alone treats "array → object" and "object → array" differently.
func checkBalancedPredicates(c *Ctx, r *goan.Rel) {
	rule := "C14.R2.balanced-predicates"
	c.Rule(rule, "within a function, every same-package predicate applied in a condition to a value of one spec is also applied to a value of the other spec", 6)
	pk := r.Pkg
	info := pk.TypesInfo
	for _, fd := range load.AllFuncs(pk) {
		fd := fd
		type cnt struct{ s1, s2 int }
		counts := map[string]*cnt{}
		var order []string
		visit := func(cond ast.Expr) {
			ast.Inspect(cond, func(n ast.Node) bool {
				call, ok := n.(*ast.CallExpr)
				if !ok || len(call.Args) != 1 {
					return true
				}
				fn := goan.Callee(info, call)
				if fn == nil || fn.Pkg() != pk.Types {
					return true
				}
				sig, _ := fn.Type().(*types.Signature)
				if sig == nil || sig.Results().Len() != 1 || !types.Identical(sig.Results().At(0).Type(), types.Typ[types.Bool]) {
					return true
				}
				side := r.SideOf(call.Args[0])
				if side != goan.S1 && side != goan.S2 {
					return true
				}
				k := fn.Name()
				if counts[k] == nil {
					counts[k] = &cnt{}
					order = append(order, k)
				}
				if side == goan.S1 {
					counts[k].s1++
				} else {
					counts[k].s2++
				}
				return true
			})
		}
		ast.Inspect(fd.Body, func(n ast.Node) bool {
			switch x := n.(type) {
			case *ast.IfStmt:
				visit(x.Cond)
			case *ast.CaseClause:
				for _, e := range x.List {
					visit(e)
				}
			}
			return true
		})
		for _, k := range order {
			ct := counts[k]
			c.Check(ct.s1 > 0 && ct.s2 > 0, rule, fmt.Sprintf("diff.%s › %s is applied to both specs", load.FuncName(fd), k), c.posOf(pk, fd.Pos()), fmt.Sprintf("%d × old, %d × new", ct.s1, ct.s2),
				fmt.Sprintf("%s is tested %d time(s) on the old spec's value and %d time(s) on the new one's: the branch it selects is taken for a change of kind in one direction only, so the report of A→B is not the mirror of B→A", k, ct.s1, ct.s2))
		}
	}
}

// lookupGuards lists the comma-ok presence tests among the control guards of an emission:
// `±ok∈<collection>` with the collection rendered without the spec it comes from.
func lookupGuards(r *goan.Rel, s *goan.Site) []string {
	info := r.Info()
	var out []string
	for _, g := range s.Guards {
		id, ok := ast.Unparen(g.E).(*ast.Ident)
		if !ok {
			continue
		}
		obj := info.ObjectOf(id)
		var src ast.Expr
		ast.Inspect(s.Fn.Body, func(n ast.Node) bool {
			as, isAs := n.(*ast.AssignStmt)
			if !isAs || len(as.Lhs) != 2 || len(as.Rhs) != 1 {
				return true
			}
			if l, isId := as.Lhs[1].(*ast.Ident); isId && info.ObjectOf(l) == obj {
				if ix, isIx := ast.Unparen(as.Rhs[0]).(*ast.IndexExpr); isIx {
					src = ix.X
				}
			}
			return true
		})
		if src == nil {
			continue
		}
		pol := "+"
		if !g.Pos {
			pol = "-"
		}
		out = append(out, pol+"ok∈"+r.TwinKeyResolved(src, s.Fn.Body))
	}
	sort.Strings(out)
	return out
}

// sidedText renders an expression with the identifiers of spec 1 and spec 2 replaced by ① and ②
// (swap=true exchanges them); unsided names whose spelling ends in 1/2 lose the digit as well.
func sidedText(r *goan.Rel, e ast.Node, swap bool) string { return sidedTextOpt(r, e, swap, false) }

func sidedTextOpt(r *goan.Rel, e ast.Node, swap, keepStrings bool) string {
	m1, m2 := "①", "②"
	if swap {
		m1, m2 = m2, m1
	}
	var b strings.Builder
	ast.Inspect(e, func(n ast.Node) bool {
		switch x := n.(type) {
		case *ast.Ident:
			switch r.SideOf(x) {
			case goan.S1:
				b.WriteString(m1 + " ")
			case goan.S2:
				b.WriteString(m2 + " ")
			default:
				nm := x.Name
				if len(nm) > 1 && (strings.HasSuffix(nm, "1") || strings.HasSuffix(nm, "2")) {
					d := nm[len(nm)-1]
					if (d == '1') != swap {
						nm = nm[:len(nm)-1] + "‹a›"
					} else {
						nm = nm[:len(nm)-1] + "‹b›"
					}
				}
				b.WriteString(nm + " ")
			}
		case *ast.BasicLit:
			if x.Kind == token.STRING && !keepStrings {
				b.WriteString("\"…\" ")
			} else {
				b.WriteString(x.Value + " ")
			}
		case *ast.BinaryExpr:
			b.WriteString(x.Op.String() + " ")
		case *ast.UnaryExpr:
			b.WriteString(x.Op.String() + " ")
		case *ast.AssignStmt:
			b.WriteString(x.Tok.String() + " ")
		case *ast.CallExpr:
			b.WriteString("call ")
		case *ast.ReturnStmt:
			b.WriteString("return ")
		case *ast.IfStmt:
			b.WriteString("if ")
		}
		return true
	})
	return b.String()
}

// checkTwinFunctions: two functions whose names differ only by a trailing 1 / 2 are the same
// function for the two specs: their bodies are equal once the sides are exchanged.
func checkTwinFunctions(c *Ctx, r *goan.Rel) {
	rule := "C14.R2.twin-functions"
	c.Rule(rule, "functions named …1 / …2 have the same body up to the exchange of the two specs", 1)
	pk := r.Pkg
	byName := map[string]*ast.FuncDecl{}
	for _, fd := range load.AllFuncs(pk) {
		byName[load.FuncName(fd)] = fd
	}
	n := 0
	var names []string
	for nm := range byName {
		names = append(names, nm)
	}
	sort.Strings(names)
	for _, nm := range names {
		if !strings.HasSuffix(nm, "1") {
			continue
		}
		twin := byName[nm[:len(nm)-1]+"2"]
		if twin == nil {
			continue
		}
		n++
		a := sidedText(r, byName[nm].Body, false)
		b := sidedText(r, twin.Body, true)
		c.Check(a == b, rule, "diff."+nm+" ↔ "+load.FuncName(twin), c.posOf(pk, byName[nm].Pos()), "same body with the specs exchanged",
			"the two functions do different things for the old and for the new spec (beyond reading their own side): whatever one of them records or skips makes the comparison depend on the direction")
	}
	if n == 0 {
		c.Unk(rule, "diff › functions named …1/…2", "", "none found (anchor: getRefSchemaFromSpec1/2)")
	}
}

// checkMirrorBranches: two `if` statements of one block whose conditions are each other's mirror
// (a1 && !a2 / !a1 && a2) must do the same things: same assignments, same calls — only the code
// they report may differ.
func checkMirrorBranches(c *Ctx, r *goan.Rel) {
	rule := "C14.R2.mirror-branches"
	c.Rule(rule, "sibling branches whose conditions mirror each other have bodies of the same shape (assignments and calls)", 3)
	pk := r.Pkg
	shape := func(b *ast.BlockStmt) string {
		var out []string
		ast.Inspect(b, func(n ast.Node) bool {
			switch x := n.(type) {
			case *ast.AssignStmt:
				for _, l := range x.Lhs {
					out = append(out, "set "+goan.LastSel(l))
				}
			case *ast.CallExpr:
				out = append(out, "call "+goan.LastSel(x.Fun))
			case *ast.ReturnStmt:
				out = append(out, "return")
			}
			return true
		})
		sort.Strings(out)
		return strings.Join(out, "; ")
	}
	n := 0
	for _, fd := range load.AllFuncs(pk) {
		fd := fd
		ast.Inspect(fd.Body, func(nd ast.Node) bool {
			blk, ok := nd.(*ast.BlockStmt)
			if !ok {
				return true
			}
			var ifs []*ast.IfStmt
			for _, st := range blk.List {
				if x, ok := st.(*ast.IfStmt); ok && x.Else == nil && x.Init == nil {
					ifs = append(ifs, x)
				}
			}
			// conjunctions are compared up to the order of their operands
			conj := func(e ast.Expr, swap bool) string {
				var parts []string
				var split func(e ast.Expr)
				split = func(e ast.Expr) {
					if be, ok := ast.Unparen(e).(*ast.BinaryExpr); ok && be.Op == token.LAND {
						split(be.X)
						split(be.Y)
						return
					}
					parts = append(parts, sidedText(r, e, swap))
				}
				split(e)
				sort.Strings(parts)
				return strings.Join(parts, "&& ")
			}
			for i := 0; i < len(ifs); i++ {
				ci := conj(ifs[i].Cond, false)
				if !strings.Contains(ci, "①") || !strings.Contains(ci, "②") {
					continue
				}
				for j := i + 1; j < len(ifs); j++ {
					if conj(ifs[j].Cond, true) != ci || conj(ifs[j].Cond, false) == ci {
						continue
					}
					n++
					si, sj := shape(ifs[i].Body), shape(ifs[j].Body)
					c.Check(si == sj, rule, fmt.Sprintf("diff.%s › branches under %s and its mirror", load.FuncName(fd), goan.ExprString(ifs[i].Cond)), c.posOf(pk, ifs[i].Pos()), "same assignments and calls",
						fmt.Sprintf("the branch under `%s` does [%s], its mirror under `%s` does [%s]: what follows (a flag that suppresses further comparisons, a recorded fact) depends on the direction of the change", goan.ExprString(ifs[i].Cond), si, goan.ExprString(ifs[j].Cond), sj))
				}
			}
			return true
		})
	}
	if n < 3 {
		c.Unk(rule, "diff › mirrored sibling branches", "", fmt.Sprintf("%d pairs found", n))
	}
}

// checkSymmetricGuards: a direction-less code (Changed…) must be reported for A→B exactly when it is
// reported for B→A: whatever is tested on one spec's value in the conditions around its emission must
// be tested on the other's too.
func checkSymmetricGuards(c *Ctx, r *goan.Rel, sites []boundSite) {
	rule := "C14.R1.symmetric-guards"
	c.Rule(rule, "the one-sided tests in the conditions around the emission of a direction-less code are the same for both specs", 10)
	pk := r.Pkg
	info := r.Info()
	for _, bs := range sites {
		if codeClass(bs.Code) != "undirected" || bs.Via == "assign" {
			continue // an initial value that later branches overwrite is not an emission
		}
		// one-sided atomic tests anywhere in the guards (locals resolved)
		cnt := map[string][2]int{}
		for _, g := range bs.Guards {
			if g.NonEmpty {
				continue // `range X` says X is not empty: a fact of the iteration, not a test
			}
			e := goan.ResolveLocal(info, bs.Fn.Body, g.E)
			var walk func(e ast.Expr)
			walk = func(e ast.Expr) {
				switch x := ast.Unparen(e).(type) {
				case *ast.BinaryExpr:
					if x.Op == token.LAND || x.Op == token.LOR {
						walk(x.X)
						walk(x.Y)
						return
					}
				case *ast.UnaryExpr:
					if x.Op == token.NOT {
						walk(x.X)
						return
					}
				case *ast.Ident:
					if d := goan.ResolveLocal(info, bs.Fn.Body, x); d != ast.Expr(x) {
						walk(d)
						return
					}
				}
				t := sidedTextOpt(r, e, false, true)
				has1, has2 := strings.Contains(t, "①"), strings.Contains(t, "②")
				if has1 == has2 {
					return // two-sided or unsided test
				}
				key := strings.NewReplacer("①", "§", "②", "§").Replace(t)
				v := cnt[key]
				if has1 {
					v[0]++
				} else {
					v[1]++
				}
				cnt[key] = v
			}
			walk(e)
		}
		bad := ""
		for k, v := range cnt {
			if v[0] != v[1] {
				bad = fmt.Sprintf("`%s` is tested %d× on the old spec and %d× on the new one", strings.TrimSpace(k), v[0], v[1])
			}
		}
		c.Check(bad == "", rule, siteKey(bs.Site, bs.Code)+" › symmetric conditions", c.posOf(pk, bs.Pos), "every one-sided test has its twin",
			bs.Code+" has no direction, but "+bad+" in the conditions around its emission: it is reported in one direction of the comparison and not in the other")
	}
}

// checkSharedGuards: a condition whose branch emits a directed code and its mirror (added and
// deleted media types, widened and narrowed bounds) decides for both directions at once: it
// must treat the two specs alike. A test of one side only (`len(new.Consumes) > 0`) lets a
// change through in one direction and hides it in the other — or hides the removal altogether.
func checkSharedGuards(c *Ctx, rule string, r *goan.Rel, sites []boundSite) {
	c.Rule(rule, "an `if` whose body emits a code and its mirror code has a condition that tests both specs alike", 5)
	pk := r.Pkg
	info := r.Info()
	for _, fd := range load.AllFuncs(pk) {
		if fd.Body == nil {
			continue
		}
		fd := fd
		ord := 0
		ast.Inspect(fd.Body, func(nd ast.Node) bool {
			ifs, ok := nd.(*ast.IfStmt)
			if !ok {
				return true
			}
			codes := map[string]bool{}
			for _, bs := range sites {
				if bs.Fn == fd && bs.Pos >= ifs.Body.Pos() && bs.Pos <= ifs.Body.End() {
					codes[bs.Code] = true
				}
				if bs.Call != nil && bs.Call.Fn == fd && bs.Call.Call.Pos() >= ifs.Body.Pos() && bs.Call.Call.Pos() <= ifs.Body.End() {
					codes[bs.Code] = true
				}
			}
			pair := ""
			for _, code := range sortedKeys(codes) {
				if m := mirrorCode(code); m != code && codes[m] && pair == "" {
					pair = code + " / " + m
				}
			}
			if pair == "" {
				return true
			}
			ord++
			cnt := map[string][2]int{}
			var walk func(e ast.Expr)
			walk = func(e ast.Expr) {
				switch x := ast.Unparen(e).(type) {
				case *ast.BinaryExpr:
					if x.Op == token.LAND || x.Op == token.LOR {
						walk(x.X)
						walk(x.Y)
						return
					}
				case *ast.UnaryExpr:
					if x.Op == token.NOT {
						walk(x.X)
						return
					}
				case *ast.Ident:
					if d := goan.ResolveLocal(info, fd.Body, x); d != ast.Expr(x) {
						walk(d)
						return
					}
				}
				t := sidedTextOpt(r, e, false, true)
				has1, has2 := strings.Contains(t, "①"), strings.Contains(t, "②")
				if has1 == has2 {
					return
				}
				key := strings.NewReplacer("①", "§", "②", "§").Replace(t)
				v := cnt[key]
				if has1 {
					v[0]++
				} else {
					v[1]++
				}
				cnt[key] = v
			}
			walk(ifs.Cond)
			bad := ""
			var ks []string
			for k := range cnt {
				ks = append(ks, k)
			}
			sort.Strings(ks)
			for _, k := range ks {
				if v := cnt[k]; v[0] != v[1] && bad == "" {
					bad = fmt.Sprintf("`%s` is tested %d× on the old spec and %d× on the new one", strings.TrimSpace(k), v[0], v[1])
				}
			}
			c.Check(bad == "", rule, fmt.Sprintf("diff.%s › if #%d around %s", load.FuncName(fd), ord, pair), c.posOf(pk, ifs.Pos()), "the condition tests both specs alike",
				fmt.Sprintf("the condition `%s` guards the emission of %s, but %s: the change is looked for when one spec has the attribute and not when only the other has it", goan.ExprString(ifs.Cond), pair, bad))
			return true
		})
	}
}

// checkMirrorElse: where one branch of an if/else reports DeletedConstraint and the other AddedConstraint
// (a constraint present in one spec only), the second is the plain `else` of the first: a further
// condition on it ("a lower bound of 0 constrains nothing") makes A→B silent while B→A still reports.
func checkMirrorElse(c *Ctx, rule string, pk *packages.Package) {
	c.Rule(rule, "a DeletedConstraint / AddedConstraint pair emitted by the two branches of one `if` has no further condition on either branch (plain else)", 2)
	emits := func(n ast.Node, code string) bool {
		found := false
		ast.Inspect(n, func(m ast.Node) bool {
			if kv, ok := m.(*ast.KeyValueExpr); ok && goan.IsIdent(kv.Key, "Change") && goan.IsIdent(kv.Value, code) {
				found = true
			}
			return true
		})
		return found
	}
	n := 0
	for _, fd := range load.AllFuncs(pk) {
		if fd.Body == nil {
			continue
		}
		fd := fd
		ast.Inspect(fd.Body, func(m ast.Node) bool {
			ifs, ok := m.(*ast.IfStmt)
			if !ok || ifs.Else == nil {
				return true
			}
			for _, pair := range [][2]string{{"DeletedConstraint", "AddedConstraint"}, {"AddedConstraint", "DeletedConstraint"}} {
				if emits(ifs.Body, pair[0]) && !emits(ifs.Body, pair[1]) && emits(ifs.Else, pair[1]) && !emits(ifs.Else, pair[0]) {
					n++
					_, plain := ifs.Else.(*ast.BlockStmt)
					key := "diff." + load.FuncName(fd) + " › " + pair[0] + " / " + pair[1] + " under `" + goan.ExprString(ifs.Cond) + "`"
					cond := ""
					if ei, ok := ifs.Else.(*ast.IfStmt); ok {
						cond = goan.ExprString(ei.Cond)
					}
					c.Check(plain, rule, key, c.posOf(pk, ifs.Pos()), "plain else",
						pair[1]+" is reported only under the further condition `"+cond+"`: a constraint present in one spec only is reported in one direction and passed over in the other, so the report of B→A is not the mirror of A→B")
				}
			}
			return true
		})
	}
	if n == 0 {
		c.Anchor(rule, "diff › DeletedConstraint/AddedConstraint branch pairs", "not found")
	}
}
