package props

import (
	"fmt"
	"go/ast"
	"go/token"
	"go/types"
	"strings"

	"verif/tool/goan"
	"verif/tool/load"
)

// checkMemoKey: the analyser remembers what it has compared in set-like map fields and returns
// at once when it meets a key again. A key made of one spec only (the $ref of the old schema)
// stands for the pair only where the other spec's part is known to be the same: the function
// must have compared the two sides, and left on a difference, before it consults the set.
// Consulted earlier, a pair (A, B) met after (A, A) is taken for compared — in one direction
// only, since the key names the old spec.
func checkMemoKey(c *Ctx, rule string, r *goan.Rel) {
	c.Rule(rule, "a visited set keyed by one spec only is consulted after the function has compared the two sides and returned on a difference", 1)
	pk := r.Pkg
	info := r.Info()
	// sides mentioned by an expression, following the local variables it is made of
	var sides func(body ast.Node, e ast.Node, depth int) (bool, bool)
	sides = func(body ast.Node, e ast.Node, depth int) (bool, bool) {
		t := sidedTextOpt(r, e, false, true)
		s1, s2 := strings.Contains(t, "①"), strings.Contains(t, "②")
		if depth > 3 {
			return s1, s2
		}
		ast.Inspect(e, func(n ast.Node) bool {
			id, ok := n.(*ast.Ident)
			if !ok {
				return true
			}
			v, _ := info.Uses[id].(*types.Var)
			if v == nil || v.IsField() || v.Parent() == pk.Types.Scope() {
				return true
			}
			for _, a := range goan.AssignmentsTo(info, body, v) {
				if a.Rhs == nil || a.Rhs.Pos() > e.Pos() {
					continue
				}
				a1, a2 := sides(body, a.Rhs, depth+1)
				s1, s2 = s1 || a1, s2 || a2
			}
			return true
		})
		return s1, s2
	}
	for _, fd := range load.AllFuncs(pk) {
		if fd.Body == nil {
			continue
		}
		fd := fd
		// set-like stores: recv.field[key] = struct{}{} / true
		ast.Inspect(fd.Body, func(n ast.Node) bool {
			as, ok := n.(*ast.AssignStmt)
			if !ok || len(as.Lhs) != 1 || as.Tok != token.ASSIGN {
				return true
			}
			ix, ok := as.Lhs[0].(*ast.IndexExpr)
			if !ok {
				return true
			}
			se, ok := ast.Unparen(ix.X).(*ast.SelectorExpr)
			if !ok {
				return true
			}
			fv, _ := info.Uses[se.Sel].(*types.Var)
			mt, _ := info.TypeOf(ix.X).Underlying().(*types.Map)
			if fv == nil || !fv.IsField() || mt == nil {
				return true
			}
			if st, ok := mt.Elem().Underlying().(*types.Struct); !(ok && st.NumFields() == 0) && !types.Identical(mt.Elem().Underlying(), types.Typ[types.Bool]) {
				return true
			}
			// the lookup that answers "seen": a comma-ok read of the same field guarding a return
			var lookup *ast.IfStmt
			ast.Inspect(fd.Body, func(m ast.Node) bool {
				ifs, ok := m.(*ast.IfStmt)
				if !ok || ifs.Init == nil || lookup != nil {
					return true
				}
				ia, ok := ifs.Init.(*ast.AssignStmt)
				if !ok || len(ia.Rhs) != 1 {
					return true
				}
				lx, ok := ast.Unparen(ia.Rhs[0]).(*ast.IndexExpr)
				if !ok {
					return true
				}
				ls, ok := ast.Unparen(lx.X).(*ast.SelectorExpr)
				if !ok || info.Uses[ls.Sel] != fv {
					return true
				}
				if len(ifs.Body.List) > 0 {
					if _, ok := ifs.Body.List[len(ifs.Body.List)-1].(*ast.ReturnStmt); ok {
						lookup = ifs
					}
				}
				return true
			})
			if lookup == nil {
				return true
			}
			k1, k2 := sides(fd.Body, ix.Index, 0)
			key := fmt.Sprintf("diff.%s › visited set %s", load.FuncName(fd), fv.Name())
			if k1 == k2 {
				c.Check(k1, rule, key, c.posOf(pk, as.Pos()), "the key names both specs, or neither",
					"the visited-set key names neither spec")
				return true
			}
			// an earlier statement of the function body that leaves on a difference between the sides
			found := false
			for _, st := range fd.Body.List {
				if st.Pos() >= lookup.Pos() {
					break
				}
				ifs, ok := st.(*ast.IfStmt)
				if !ok || len(ifs.Body.List) == 0 {
					continue
				}
				if _, ok := ifs.Body.List[len(ifs.Body.List)-1].(*ast.ReturnStmt); !ok {
					continue
				}
				if ifs.Pos() > lookup.Pos() || (lookup.Pos() >= ifs.Pos() && lookup.End() <= ifs.End()) {
					continue
				}
				if a1, a2 := sides(fd.Body, ifs.Cond, 0); a1 && a2 {
					found = true
				}
			}
			side := "old"
			if k2 {
				side = "new"
			}
			c.Check(found, rule, key, c.posOf(pk, lookup.Pos()), "consulted after the two sides were compared",
				fmt.Sprintf("the key `%s` is made of the %s spec only, and the set is consulted before any comparison of the two sides has returned on a difference: a pair whose other half differs from the one compared first under this key is taken for compared, and which pairs those are changes when the specs are exchanged", goan.ExprString(ix.Index), side))
			return true
		})
	}
}
