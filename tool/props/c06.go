package props

import (
	"fmt"
	"go/ast"
	"go/token"
	"regexp"
	"strings"

	"golang.org/x/tools/go/packages"

	"verif/tool/goan"
	"verif/tool/load"
	"verif/tool/tmpl"
)

func init() { register("C06", checkC06) }

var securityEmitRules = []emitRule{
	{Name: "Authorize is called for operations with a requirement", Trees: []string{"serverOperation"}, Rx: `uprinc, aCtx, err := ⟦\.ReceiverName⟧\.Context\.Authorize\(r, route\)\s*if err != nil \{\s*⟦\.ReceiverName⟧\.Context\.Respond\(rw, r, route\.Produces, route, err\)\s*return\s*\}`, Need: []guardAtom{{"Authorized", +1}}, Min: 1,
		Why: "an operation with an effective security requirement authenticates the request and answers the authentication error without going further"},
	{Name: "one authenticator case per security definition", Trees: []string{"serverBuilder"}, Rx: `case "⟦\.ID⟧":`, Range: ".SecurityDefinitions", Min: 1,
		Why: "every scheme the spec defines gets an authenticator under its own name"},
	{Name: "basic schemes use the basic authenticator", Trees: []string{"serverBuilder"}, Rx: `result\[name\] = ⟦\.ReceiverName⟧\.BasicAuthenticator\(`, Need: []guardAtom{{"IsBasicAuth", +1}}, Min: 1,
		Why: "a basic scheme is checked against the Authorization: Basic header"},
	{Name: "apiKey schemes use the api-key authenticator with the scheme's name and location", Trees: []string{"serverBuilder"}, Rx: `result\[name\] = ⟦\.ReceiverName⟧\.APIKeyAuthenticator\(scheme\.Name, scheme\.In, `, Need: []guardAtom{{"IsAPIKeyAuth", +1}}, Min: 1,
		Why: "an apiKey scheme reads the key from the header or query parameter the spec names"},
	{Name: "oauth2 schemes use the bearer authenticator", Trees: []string{"serverBuilder"}, Rx: `result\[name\] = ⟦\.ReceiverName⟧\.BearerAuthenticator\(name, `, Need: []guardAtom{{"IsOAuth2", +1}}, Min: 1,
		Why: "an oauth2 scheme checks the bearer token with the required scopes"},
	{Name: "authenticators call the scheme's registered function", Trees: []string{"serverBuilder"}, Rx: `⟦\.ReceiverName⟧\.⟦pascalize \.ID⟧Auth\((username, password|token|token, scopes)\)`, Range: ".SecurityDefinitions", Min: 3,
		Why: "credentials are verified by the function registered for that very scheme"},
	{Name: "default authenticator constructors are the runtime's", Trees: []string{"serverBuilder"}, Rx: `BasicAuthenticator:\s+security\.BasicAuth,\s*APIKeyAuthenticator:\s+security\.APIKeyAuth,\s*BearerAuthenticator:\s+security\.BearerAuth,`, Min: 1,
		Why: "each kind of scheme is bound to the runtime authenticator of its own kind"},
	{Name: "unconfigured scheme functions deny", Trees: []string{"serverBuilder"}, Rx: `⟦pascalize \.ID⟧Auth: func\([^)]*\) \([^)]*\) \{\s*return nil, errors\.NotImplemented\(`, Range: ".SecurityDefinitions", Min: 3,
		Why: "a scheme whose verification function was not configured rejects every credential"},
	{Name: "unregistered scheme functions fail validation", Trees: []string{"serverBuilder"}, Rx: `if ⟦\.ReceiverName⟧\.⟦pascalize \.ID⟧Auth == nil \{\s*unregistered = append\(unregistered,`, Range: ".SecurityDefinitions", Min: 1,
		Why: "an API whose scheme function is nil does not start serving"},
}

func checkC06(c *Ctx) {
	c.Explain("generated server enforces security requirements — structural conditions: (R1) the Authorized flag of an operation is exactly `len(Analyzed.SecurityRequirementsFor(op)) > 0` at both construction sites and reaches the template unchanged; (R2) ServeHTTP authenticates under `if .Authorized`, answers the error and returns, and does so before binding parameters and before calling the handler, which receives the authenticator's principal; (R3) AuthenticatorsFor has one case per security definition keyed by the scheme name, each kind of scheme is wired to the runtime authenticator of its own kind with the scheme's own registered function, unconfigured functions deny; scheme kinds are decided by comparing the lower-cased type with basic/apikey/oauth2. " +
		"Decides flag computation, placement and wiring; the evaluation of AND/OR alternatives happens at run time in go-openapi/runtime from the embedded flattened spec (C10) and is not decided here.")
	c.Assume("go-openapi/analysis.SecurityRequirementsFor implements 'operation list if present, else global' and returns an empty list for `security: []`; go-openapi/runtime middleware.Context.Authorize evaluates the alternatives of the matched route")
	ev, _, gen := c.evalTemplates("")
	c.Rule("C06.R2.emissions", "authentication, principal hand-over and authenticator wiring are emitted under their own flags", 13)
	checkEmitRules(c, "C06.R2.emissions", ev, securityEmitRules)

	c.Rule("C06.R2.serve-order", "ServeHTTP authenticates before it binds parameters and before it calls the handler", 1)
	if l := linearOf(c, ev, "serverOperation"); l == nil {
		c.Anchor("C06.R2.serve-order", "template serverOperation", "not found")
	} else {
		checkOrder(c, "C06.R2.serve-order", "serverOperation › ServeHTTP › Authorize → BindValidRequest → Handle", l,
			"an unauthenticated request must be answered 401/403 before anything else is decided about it, and never reach the handler",
			`\.Context\.Authorize\(r, route\)`, `\.Context\.BindValidRequest\(r, route, &Params\)`, `\.Handler\.Handle\(Params`)
		// the un-authorized variant of Handle exists only under not .Authorized
		n := len(regexp.MustCompile(`\.Handler\.Handle\(\w+`).FindAllString(l.Text, -1))
		c.Check(n == 1, "C06.R2.serve-order", "serverOperation › ServeHTTP › single Handle call", l.Tree.File, "1 call", fmt.Sprintf("%d Handle calls: one of them may bypass the Authorize block", n))
	}
	checkPrincipalFlow(c, ev)
	checkAdapterArgs(c, ev)
	checkAuthedFlag(c, gen)
	checkSchemeKinds(c, gen)
	// the requirements are evaluated at run time from the embedded spec: that file must be
	// rewritten by every generation
	c.Rule("C06.R4.spec-rewritten", "every generated file other than the SkipExists-protected ones is rewritten on every generation (the embedded spec the run-time security evaluation reads is never stale)", 1)
	checkWriteUnconditional(c, "C06.R4.spec-rewritten", gen)
	// two operations merged into one handler slot run under one of the two security requirements
	checkRouteClash(c, "C06.R5.route-clash", gen)
	// every required scheme gets its authenticator: the loops that collect them leave no element out
	checkLoopTotality(c, "C06.R3.loop-totality", gen, "generator", 20, generatorLoopExits)
	checkSchemesTotal(c, gen)
}

// checkSchemesTotal: the runtime ignores a required scheme that has no authenticator (the
// alternative is then satisfied by the remaining schemes), so every security definition of
// the spec must reach the generated AuthenticatorsFor: the loop that builds the scheme list
// appends once per definition, under no condition.
func checkSchemesTotal(c *Ctx, gen *packages.Package) {
	rule := "C06.R3.schemes-total"
	c.Rule(rule, "gatherSecuritySchemes appends one GenSecurityScheme per security definition, unconditionally (no skip, no early exit from the loop)", 1)
	fd := load.FuncDecl(gen, "gatherSecuritySchemes")
	if fd == nil {
		c.Anchor(rule, "generator.gatherSecuritySchemes", "not found")
		return
	}
	info := gen.TypesInfo
	param := info.Defs[fd.Type.Params.List[0].Names[0]]
	n := 0
	ast.Inspect(fd.Body, func(nd ast.Node) bool {
		rs, ok := nd.(*ast.RangeStmt)
		if !ok || !identIs(info, rs.X, param) {
			return true
		}
		n++
		appends, guarded, exits := 0, "", ""
		goan.WalkGuards(info, rs.Body, func(m ast.Node, guards []goan.Lit, _ []ast.Stmt) {
			switch x := m.(type) {
			case *ast.AssignStmt:
				if len(x.Rhs) != 1 {
					return
				}
				call, ok := x.Rhs[0].(*ast.CallExpr)
				if !ok || !goan.IsIdent(call.Fun, "append") || len(call.Args) < 2 {
					return
				}
				if goan.NamedName(info.TypeOf(call.Args[1])) != "GenSecurityScheme" {
					return
				}
				appends++
				for _, g := range guards {
					guarded += " [" + goan.ExprString(g.E) + "]"
				}
			case *ast.BranchStmt:
				if x.Tok == token.CONTINUE || x.Tok == token.BREAK {
					// a continue/break of an inner loop does not leave this one
					inner := false
					ast.Inspect(rs.Body, func(k ast.Node) bool {
						switch k.(type) {
						case *ast.RangeStmt, *ast.ForStmt:
							if k.Pos() <= x.Pos() && x.End() <= k.End() {
								inner = true
							}
						}
						return true
					})
					if !inner {
						exits += " " + c.posOf(gen, x.Pos())
					}
				}
			case *ast.ReturnStmt:
				inLit := false
				ast.Inspect(rs.Body, func(k ast.Node) bool {
					if fl, ok := k.(*ast.FuncLit); ok && fl.Pos() <= x.Pos() && x.End() <= fl.End() {
						inLit = true
					}
					return true
				})
				if !inLit {
					exits += " " + c.posOf(gen, x.Pos())
				}
			}
		})
		c.Check(appends == 1 && guarded == "" && exits == "", rule, "generator.gatherSecuritySchemes › one scheme per definition", c.posOf(gen, rs.Pos()), "the append is unconditional and the loop body has no continue/break/return",
			fmt.Sprintf("a security definition can be left out of the generated API (appends=%d, conditions on the append:%s, loop exits:%s): the runtime treats a required scheme without authenticator as absent, so an alternative naming it together with another scheme is satisfied by the other one alone", appends, guarded, exits))
		return true
	})
	if n == 0 {
		c.Unk(rule, "generator.gatherSecuritySchemes › loop over the definitions", c.posOf(gen, fd.Pos()), "no range over the definitions parameter found")
	}
}

func checkAuthedFlag(c *Ctx, gen *packages.Package) {
	rule := "C06.R1.authed"
	c.Rule(rule, "Authed is `len(Analyzed.SecurityRequirementsFor(op)) > 0` wherever it is set, and GenOperation.Authorized is the builder's Authed", 3)
	info := gen.TypesInfo
	var curBody ast.Node
	isReq := func(e ast.Expr, builderDone bool) bool {
		e = goan.ResolveLocal(info, curBody, e)
		be, ok := ast.Unparen(e).(*ast.BinaryExpr)
		if !ok || be.Op != token.GTR || goan.ExprString(be.Y) != "0" {
			return false
		}
		call, ok := ast.Unparen(be.X).(*ast.CallExpr)
		if !ok || !goan.IsBuiltinCall(info, call, "len") || len(call.Args) != 1 {
			return false
		}
		arg := goan.ResolveLocal(info, curBody, call.Args[0])
		// once the builder is complete (MakeOperation), its Security field holds the same SecurityRequirementsFor(op) result
		if se, ok := ast.Unparen(arg).(*ast.SelectorExpr); ok && builderDone && se.Sel.Name == "Security" {
			return true
		}
		inner, ok := ast.Unparen(arg).(*ast.CallExpr)
		if !ok {
			return false
		}
		fn := goan.Callee(info, inner)
		return fn != nil && strings.HasSuffix(goan.CalleeName(fn), "Spec.SecurityRequirementsFor")
	}
	n := 0
	for _, fd := range load.AllFuncs(gen) {
		fd := fd
		curBody = fd.Body
		ast.Inspect(fd.Body, func(nd ast.Node) bool {
			var lhs string
			var rhs ast.Expr
			switch x := nd.(type) {
			case *ast.AssignStmt:
				if len(x.Lhs) == 1 && len(x.Rhs) == 1 {
					lhs, rhs = goan.LastSel(x.Lhs[0]), x.Rhs[0]
				}
			case *ast.KeyValueExpr:
				if id, ok := x.Key.(*ast.Ident); ok {
					lhs, rhs = id.Name, x.Value
				}
			}
			switch lhs {
			case "Authed":
				n++
				c.Check(isReq(rhs, false), rule, fmt.Sprintf("generator.%s › Authed", load.FuncName(fd)), c.posOf(gen, nd.Pos()), "len(SecurityRequirementsFor(op)) > 0",
					fmt.Sprintf("Authed = %s: the flag no longer says 'the operation has an effective security requirement' — operations whose requirement names an undefined scheme, or only the global requirement, are served without authentication (or the converse)", goan.ExprString(rhs)))
			case "Authorized":
				n++
				c.Check(goan.ExprString(goan.ResolveLocal(info, fd.Body, rhs)) == "b.Authed" || isReq(rhs, true), rule, fmt.Sprintf("generator.%s › Authorized", load.FuncName(fd)), c.posOf(gen, nd.Pos()), "b.Authed", "GenOperation.Authorized = "+goan.ExprString(rhs)+" instead of the builder's Authed")
			}
			return true
		})
	}
	if n < 3 {
		c.Unk(rule, "generator › Authed/Authorized assignments", "", fmt.Sprintf("%d found, expected 3", n))
	}
}

func checkSchemeKinds(c *Ctx, gen *packages.Package) {
	rule := "C06.R3.scheme-kinds"
	c.Rule(rule, "the kind flags of a security scheme compare its lower-cased type with their own literal", 3)
	fd := load.FuncDecl(gen, "gatherSecuritySchemes")
	if fd == nil {
		c.Anchor(rule, "generator.gatherSecuritySchemes", "not found")
		return
	}
	info := gen.TypesInfo
	want := map[string]string{"IsBasicAuth": "basic", "IsAPIKeyAuth": "apikey", "IsOAuth2": "oauth2"}
	ast.Inspect(fd.Body, func(nd ast.Node) bool {
		kv, ok := nd.(*ast.KeyValueExpr)
		if !ok {
			return true
		}
		id, ok := kv.Key.(*ast.Ident)
		if !ok || want[id.Name] == "" {
			return true
		}
		v := goan.ResolveLocal(info, fd.Body, kv.Value)
		okv := false
		if be, ok := ast.Unparen(v).(*ast.BinaryExpr); ok && be.Op == token.EQL {
			if s, ok := goan.StringVal(info, be.Y); ok && s == want[id.Name] {
				if call, ok := ast.Unparen(be.X).(*ast.CallExpr); ok {
					if fn := goan.Callee(info, call); fn != nil && goan.CalleeName(fn) == "strings.ToLower" && goan.LastSel(call.Args[0]) == "Type" {
						okv = true
					}
				}
			}
		}
		c.Check(okv, rule, "generator.gatherSecuritySchemes › "+id.Name, c.posOf(gen, kv.Pos()), `strings.ToLower(req.Type) == "`+want[id.Name]+`"`,
			fmt.Sprintf("%s = %s: schemes of that kind get no (or another kind's) authenticator", id.Name, goan.ExprString(v)))
		delete(want, id.Name)
		return true
	})
	for k := range want {
		c.Bad(rule, "generator.gatherSecuritySchemes › "+k, c.posOf(gen, fd.Pos()), k+" is not set")
	}
	// ID is the scheme's key in securityDefinitions (the name requirements refer to)
	okID := false
	ast.Inspect(fd.Body, func(nd ast.Node) bool {
		rs, ok := nd.(*ast.RangeStmt)
		if !ok {
			return true
		}
		key, _ := rs.Key.(*ast.Ident)
		ast.Inspect(rs.Body, func(m ast.Node) bool {
			if kv, ok := m.(*ast.KeyValueExpr); ok && goan.IsIdent(kv.Key, "ID") && key != nil && goan.IsIdent(kv.Value, key.Name) {
				okID = true
			}
			return true
		})
		return true
	})
	c.Check(okID, rule, "generator.gatherSecuritySchemes › ID is the definition's key", c.posOf(gen, fd.Pos()), "ID: <range key>", "the scheme ID is not the key under which the spec defines it: requirements naming the scheme find no authenticator")
}

var adapterRx = regexp.MustCompile(`func\(([^)]*)\) \(interface\{\}, error\) \{`)
var adapterCallRx = regexp.MustCompile(`⟦\.ReceiverName⟧\.⟦pascalize \.ID⟧Auth\(([^)]*)\)`)

// checkAdapterArgs: the adapter closures of AuthenticatorsFor hand their own parameters to the
// scheme's function in the order they receive them (user before password, token before scopes),
// and — when the principal is a pointer — never wrap a nil pointer into a non-nil interface{}
// (for the runtime a nil principal means "not authenticated").
func checkAdapterArgs(c *Ctx, ev *tmpl.Evaluator) {
	rule := "C06.R2.adapter-args"
	c.Rule(rule, "the authenticator adapter closures pass their parameters on unchanged and in order; with a pointer principal they return nil (not a typed nil) when the authenticator returned no principal", 6)
	l := linearOf(c, ev, "serverBuilder")
	if l == nil {
		c.Anchor(rule, "template serverBuilder", "not found")
		return
	}
	k := 0
	for _, oc := range l.Find(adapterRx) {
		k++
		var params []string
		for _, piece := range strings.Split(oc.Match[1], ",") {
			f := strings.Fields(piece)
			if len(f) > 0 {
				params = append(params, f[0])
			}
		}
		end := -1
		if loc := regexp.MustCompile(`\}(?:⟦[^⟧]*⟧\.⟦[^⟧]*⟧Auth)?\)`).FindStringIndex(l.Text[oc.End:]); loc != nil {
			end = loc[0]
		}
		if end < 0 {
			c.Unk(rule, fmt.Sprintf("serverBuilder › AuthenticatorsFor › adapter closure #%d", k), l.Tree.PosStr(oc.Pos), "end of the closure not found")
			continue
		}
		body := l.Text[oc.End : oc.End+end]
		calls := adapterCallRx.FindAllStringSubmatchIndex(body, -1)
		ok, got := len(calls) > 0, ""
		nilOK, nullableCalls := true, 0
		for _, m := range calls {
			var args []string
			for _, a := range strings.Split(body[m[2]:m[3]], ",") {
				args = append(args, strings.TrimSpace(a))
			}
			got = strings.Join(args, ", ")
			if strings.Join(params, ",") != strings.Join(args, ",") {
				ok = false
			}
			if tmpl.GuardHas(l.GuardsAt(oc.End+m[0]), "PrincipalIsNullable", +1) {
				nullableCalls++
				// `<p>, <e> := call` … `if <p> == nil { … return nil, <e>` … `return <p>, <e>`
				pre := body[:m[0]]
				am := regexp.MustCompile(`(\w+), (\w+) := $`).FindStringSubmatch(pre)
				if am == nil {
					nilOK = false
					continue
				}
				rest := body[m[1]:]
				chk := regexp.MustCompile(`^\s*if ` + am[1] + ` == nil \{\s*(?://[^\n]*\s*)*return nil, ` + am[2] + `\s*\}\s*return ` + am[1] + `, ` + am[2])
				if !chk.MatchString(rest) {
					nilOK = false
				}
			}
		}
		c.Check(ok, rule, fmt.Sprintf("serverBuilder › AuthenticatorsFor › adapter closure #%d", k), l.Tree.PosStr(oc.Pos), "func("+strings.Join(params, ", ")+") → Auth("+got+")",
			fmt.Sprintf("the adapter receives (%s) but calls the scheme's function with (%s): credentials reach the user's authenticator in the wrong positions", strings.Join(params, ", "), got))
		c.Check(nullableCalls == 1 && nilOK, rule, fmt.Sprintf("serverBuilder › AuthenticatorsFor › adapter closure #%d › nil pointer principal stays nil", k), l.Tree.PosStr(oc.Pos), "under .PrincipalIsNullable the result is tested against nil before it is converted to interface{}",
			"with a pointer principal the adapter converts the authenticator's result to interface{} without testing it: (nil, nil) becomes a non-nil interface holding a nil pointer, the runtime takes the request as authenticated and the handler runs with a nil principal")
	}
	if k < 3 {
		c.Unk(rule, "serverBuilder › AuthenticatorsFor › adapter closures", l.Tree.File, fmt.Sprintf("%d adapter closures found, expected one per scheme kind (3)", k))
	}
}

// checkPrincipalFlow: the value Authorize returns is the one converted into the principal that
// Handle receives (variables are followed by their role, not by their name).
func checkPrincipalFlow(c *Ctx, ev *tmpl.Evaluator) {
	rule := "C06.R2.principal-flow"
	c.Rule(rule, "the principal handed to the handler is the value Context.Authorize returned", 1)
	l := linearOf(c, ev, "serverOperation")
	if l == nil {
		c.Anchor(rule, "template serverOperation", "not found")
		return
	}
	why := ""
	m1 := regexp.MustCompile(`(\w+), \w+, \w+ := ⟦\.ReceiverName⟧\.Context\.Authorize\(`).FindStringSubmatch(l.Text)
	if m1 == nil {
		why = "the result of Context.Authorize is not bound"
	} else {
		up := regexp.QuoteMeta(m1[1])
		m2 := regexp.MustCompile(`(\w+) = ` + up + `(` + up + `)?\b`).FindStringSubmatch(l.Text)
		if m2 == nil {
			why = "no variable is assigned from " + m1[1] + ", the value Authorize returned"
		} else if !regexp.MustCompile(`\.Handler\.Handle\(\w+, ` + regexp.QuoteMeta(m2[1]) + `\)`).MatchString(l.Text) {
			why = "Handle is not called with " + m2[1] + ", the principal derived from Authorize's result"
		}
	}
	c.Check(why == "", rule, "serverOperation › ServeHTTP › Authorize result → principal → Handle", l.Tree.File, "followed through its two assignments", why+": the handler does not receive the authenticator's principal")
}
