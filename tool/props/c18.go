package props

import (
	"go/constant"
	"fmt"
	"go/ast"
	"go/token"
	"go/types"
	"regexp"
	"sort"
	"strings"
	"text/template/parse"

	"golang.org/x/tools/go/packages"

	"verif/tool/goan"
	"verif/tool/load"
	"verif/tool/tmpl"
)

func init() { register("C18", checkC18) }

// doc-comment keywords the model templates emit, and the scanner tagger that must win for
// each (DESIGN appendix A.5). "" = informational line with no reader (reviewed).
var docKeywordTagger = map[string]string{
	"required": "required", "readonly": "readOnly", "maximum": "maximum", "minimum": "minimum", "multipleof": "multipleOf",
	"maxlength": "maxLength", "minlength": "minLength", "pattern": "pattern", "maxitems": "maxItems", "minitems": "minItems",
	"unique": "unique", "enum": "enum", "example": "example",
	"format": "", "minproperties": "", "maxproperties": "",
}

// docLine is one comment line a template can emit: literal pieces and placeholders.
type docLine struct {
	variants []string // instantiated with representative values
	pos      parse.Pos
	raw      string
}

// representative values per placeholder (by the field the action reads)
// decimalIsPlain is set when the template function `decimal` of the generator was found to format
// with strconv.FormatFloat(…, 'f', …).
var decimalIsPlain bool

func placeholderValues(action string) []string {
	switch {
	case strings.Contains(action, ".Enum"):
		return []string{`["a","b"]`, `[1,2]`}
	case strings.Contains(action, ".Pattern"):
		return []string{`^[a-z]+$`}
	case strings.Contains(action, ".Example"):
		return []string{`"x"`, `12`}
	case strings.Contains(action, ".SwaggerFormat"):
		return []string{"date"}
	case strings.Contains(action, ".Maximum"), strings.Contains(action, ".Minimum"), strings.Contains(action, ".MultipleOf"):
		if strings.HasPrefix(strings.TrimSpace(action), "decimal ") && decimalIsPlain {
			// generator.decimal = strconv.FormatFloat(v, 'f', -1, 64) (checked by C18.R1.vocabulary › decimal): never an exponent
			return []string{"10", "1.5", "-1.5", "1000000", "0.00000025"}
		}
		// a *float64 is printed with %v = %g: plain or exponent notation, signed
		return []string{"10", "1.5", "-1.5", "1e+06", "2.5e-07"}
	case strings.Contains(action, "Length"), strings.Contains(action, "Items"), strings.Contains(action, "Properties"):
		return []string{"5"}
	}
	return []string{"x"}
}

// linesOf linearises a define into the comment lines it can emit (both arms of inner ifs
// that only choose a literal prefix are expanded).
func linesOf(t *tmpl.Tree) []docLine {
	type piece struct {
		text   string
		action string
		alts   []string // alternatives for an inline if (e.g. "< " or "")
		pos    parse.Pos
	}
	var pieces []piece
	var walk func(l *parse.ListNode, top bool)
	walk = func(l *parse.ListNode, top bool) {
		if l == nil {
			return
		}
		for _, n := range l.Nodes {
			switch x := n.(type) {
			case *parse.TextNode:
				pieces = append(pieces, piece{text: string(x.Text), pos: x.Pos})
			case *parse.ActionNode:
				if len(x.Pipe.Decl) == 0 {
					pieces = append(pieces, piece{action: x.Pipe.String(), pos: x.Pos})
				}
			case *parse.IfNode:
				// inline if whose branches are pure text without newline: alternatives
				if txt, ok := pureText(x.List); ok && !strings.Contains(txt, "\n") && (x.ElseList == nil || isPureNoNL(x.ElseList)) {
					alt2 := ""
					if x.ElseList != nil {
						alt2, _ = pureText(x.ElseList)
					}
					pieces = append(pieces, piece{alts: []string{txt, alt2}, pos: x.Pos})
					continue
				}
				walk(x.List, false)
				if x.ElseList != nil {
					walk(x.ElseList, false)
				}
			case *parse.RangeNode:
				walk(x.List, false)
			case *parse.WithNode:
				walk(x.List, false)
			}
		}
	}
	walk(t.Tree.Root, true)
	// build lines: split on newlines in text pieces
	var out []docLine
	cur := []piece{}
	flush := func() {
		if len(cur) == 0 {
			return
		}
		variants := []string{""}
		raw := ""
		var pos parse.Pos
		for _, p := range cur {
			if pos == 0 {
				pos = p.pos
			}
			var opts []string
			switch {
			case p.action != "":
				opts = placeholderValues(p.action)
				raw += "{{" + p.action + "}}"
			case p.alts != nil:
				opts = p.alts
				raw += "{{if…}}" + p.alts[0] + "{{end}}"
			default:
				opts = []string{p.text}
				raw += p.text
			}
			var next []string
			for _, v := range variants {
				for _, o := range opts {
					next = append(next, v+o)
				}
			}
			variants = next
		}
		if strings.Contains(raw, "//") {
			out = append(out, docLine{variants: variants, pos: pos, raw: strings.TrimSpace(raw)})
		}
		cur = nil
	}
	for _, p := range pieces {
		if p.text == "" {
			cur = append(cur, p)
			continue
		}
		parts := strings.Split(p.text, "\n")
		for i, part := range parts {
			if i > 0 {
				flush()
			}
			if part != "" {
				cur = append(cur, piece{text: part, pos: p.pos})
			}
		}
	}
	flush()
	return out
}

func pureText(l *parse.ListNode) (string, bool) {
	if l == nil {
		return "", true
	}
	s := ""
	for _, n := range l.Nodes {
		t, ok := n.(*parse.TextNode)
		if !ok {
			return "", false
		}
		s += string(t.Text)
	}
	return s, true
}

func isPureNoNL(l *parse.ListNode) bool {
	s, ok := pureText(l)
	return ok && !strings.Contains(s, "\n")
}

var kwRx = regexp.MustCompile(`//\s*([A-Za-z][A-Za-z ]*?)\s*:`)

func checkC18(c *Ctx) {
	c.Explain("spec → generated models → scanned spec: (R1) every validation doc-comment line the model templates can emit (propertyValidationDocString, docstring) — instantiated with representative values, as whole lines after whitespace trimming — is matched by the scanner tagger of its own keyword, which is the first matching tagger in the schema parser's order, and the value lands in the capture group the setter reads; every `swagger:<word>` annotation a model template emits is accepted by the scanner's classifier; (R2) every struct-field template emits the validation doc string; (R3) the scanner's builtin table and the generator's type/format tables are inverse on the Go builtins; (R4) the Go side hands the templates the schema's own flags (Required is exactly the schema's required-ness) and the scanner decodes enum lists as JSON, the encoding the template writes them in. " +
		"Decides vocabulary and table agreement between writer and reader, not equality of the round-tripped schema.")
	c.Assume("representative values: integers, decimals, a simple pattern, JSON arrays (DESIGN A.5)", "`// Format:`, `// MinProperties:` and `// MaxProperties:` lines are informational: formats travel through the strfmt Go type and swagger:strfmt")
	ev, _, gen := c.evalTemplates("")
	prog := c.Prog("./codescan")
	scan := prog.Pkg(load.PkgCodescan)

	// scanner taggers of the schema parser, in order, with compiled regexps
	m := goan.NewMayPanic(scan)
	taggers := collectTaggers(c, scan, m)
	type rx struct {
		name string
		re   *regexp.Regexp
		src  string
	}
	var schemaTaggers []rx
	for _, tc := range taggers {
		if tc.fn != "schemaBuilder.createParser" || strings.Contains(tc.name, "%d") {
			continue
		}
		src, ok := regexpSourceOf(scan, tc)
		if !ok {
			// setters without an rx field match with a package-level regexp in their Matches method
			if md := load.FuncDecl(scan, tc.setter+".Matches"); md != nil {
				ast.Inspect(md.Body, func(n ast.Node) bool {
					if id, isId := n.(*ast.Ident); isId && !ok {
						if v, isVar := scan.TypesInfo.Uses[id].(*types.Var); isVar && v.Parent() == scan.Types.Scope() && goan.NamedPath(v.Type()) == "regexp.Regexp" {
							tc2 := tc
							tc2.rxConst = v.Name()
							src, ok = regexpSourceOf(scan, tc2)
						}
					}
					return true
				})
			}
		}
		if !ok {
			continue
		}
		re, err := regexp.Compile(src)
		if err != nil {
			continue
		}
		schemaTaggers = append(schemaTaggers, rx{tc.name, re, src})
	}
	c.Rule("C18.R1.vocabulary", "each emitted validation doc line is matched first by the scanner tagger of its own keyword, capturing the value; emitted swagger: annotations are accepted by the classifier", 14)
	if len(schemaTaggers) < 10 {
		c.Unk("C18.R1.vocabulary", "schema taggers", "", fmt.Sprintf("only %d schema taggers with resolvable regexps", len(schemaTaggers)))
	}
	decimalIsPlain = false
	if fd := load.FuncDecl(gen, "decimal"); fd != nil {
		ast.Inspect(fd.Body, func(n ast.Node) bool {
			if call, ok := n.(*ast.CallExpr); ok && len(call.Args) == 4 {
				if fn := goan.Callee(gen.TypesInfo, call); fn != nil && goan.CalleeName(fn) == "strconv.FormatFloat" {
					if v := goan.ConstVal(gen.TypesInfo, call.Args[1]); v != nil && v.String() == "102" { // 'f'
						decimalIsPlain = true
					}
				}
			}
			return true
		})
	}
	for _, def := range []string{"propertyValidationDocString", "docstring"} {
		t := ev.F.Trees[def]
		if t == nil {
			c.Anchor("C18.R1.vocabulary", def, "template not found")
			continue
		}
		for _, dl := range linesOf(t) {
			mk := kwRx.FindStringSubmatch(dl.raw)
			if mk == nil {
				continue
			}
			kw := strings.ToLower(strings.ReplaceAll(mk[1], " ", ""))
			want, known := docKeywordTagger[kw]
			key := fmt.Sprintf("%s › line %q", def, dl.raw)
			if !known {
				c.Bad("C18.R1.vocabulary", key, t.PosStr(dl.pos), "doc-comment keyword "+mk[1]+" is not in the vocabulary table: it may be mis-read by a scanner tagger")
				continue
			}
			// a line must hold exactly one keyword (two glued lines are unreadable)
			if strings.Count(dl.raw, "//") > 1 {
				c.Bad("C18.R1.vocabulary", key, t.PosStr(dl.pos), "two comment lines are glued into one after whitespace trimming: the scanner's end-anchored patterns no longer match either")
				continue
			}
			if want == "" {
				// informational: must not be claimed by any tagger
				claimed := ""
				for _, v := range dl.variants {
					for _, tg := range schemaTaggers {
						if tg.re.MatchString(v) {
							claimed = tg.name
						}
					}
				}
				c.Check(claimed == "", "C18.R1.vocabulary", key, t.PosStr(dl.pos), "informational line, claimed by no tagger", "informational line is parsed by tagger "+claimed)
				continue
			}
			okAll, why := true, ""
			for _, v := range dl.variants {
				first := ""
				var sub []string
				for _, tg := range schemaTaggers {
					if tg.re.MatchString(v) {
						first = tg.name
						sub = tg.re.FindStringSubmatch(v)
						break
					}
				}
				if first != want {
					okAll, why = false, fmt.Sprintf("line %q is read by tagger %q, expected %q", v, first, want)
					break
				}
				// the value is in the last capture group
				if len(sub) > 1 {
					val := sub[len(sub)-1]
					if val == "" || !strings.HasSuffix(strings.TrimSpace(v), val) {
						okAll, why = false, fmt.Sprintf("line %q: tagger %q captures %q, not the emitted value", v, first, val)
						break
					}
				}
			}
			c.Check(okAll, "C18.R1.vocabulary", key, t.PosStr(dl.pos), "read back by tagger "+want, why)
		}
	}
	checkDocLineFlags(c, ev)
	// the Required: line of a property says what the schema's required list says about that very name
	checkRequiredExact(c, "C18.R2.required-exact", gen)
	checkDocValuesVerbatim(c, "C18.R1.values-verbatim", ev)
	checkAnnotations(c, ev, scan)

	// ---- R2 every struct-field template emits the doc string
	c.Rule("C18.R2.fields-documented", "structfield, structfieldIface, tuplefield, tuplefieldIface each call propertyValidationDocString", 4)
	for _, def := range []string{"structfield", "structfieldIface", "tuplefield", "tuplefieldIface"} {
		t := ev.F.Trees[def]
		if t == nil {
			c.Anchor("C18.R2.fields-documented", def, "template not found")
			continue
		}
		calls := false
		var walk func(l *parse.ListNode)
		walk = func(l *parse.ListNode) {
			if l == nil {
				return
			}
			for _, n := range l.Nodes {
				switch x := n.(type) {
				case *parse.TemplateNode:
					if x.Name == "propertyValidationDocString" {
						calls = true
					}
				case *parse.IfNode:
					walk(x.List)
					walk(x.ElseList)
				case *parse.WithNode:
					walk(x.List)
					walk(x.ElseList)
				case *parse.RangeNode:
					walk(x.List)
				}
			}
		}
		walk(t.Tree.Root)
		c.Check(calls, "C18.R2.fields-documented", def+" › propertyValidationDocString", t.PosStr(0), "validation constraints are written next to the field", "the field template no longer emits the validation doc lines: every constraint of such properties is lost when the models are scanned")
	}

	// ---- R3 inverse tables
	checkInverseTables(c, gen, scan)

	// ---- R4 flags and enum decoding
	checkRoundTripWiring(c, gen, scan)
	// the scanner reads the json tags the generator writes: name first, options after it
	checkJSONTags(c, "C18.R4.json-tags", scan)
	checkImportsIndexed(c, "C18.R5.imports-indexed", scan)
	checkValueParsers(c, "C18.R4.value-parsers", scan)
	checkStrfmtNames(c, gen)
	checkIndexOrigin(c, "C18.R7.index-origin", gen, "WithAutoXOrder", 2)
	checkPlatformSuffixes(c, "C18.R6.file-suffixes", gen)
	checkExclusiveMarkers(c, ev)
	checkDecimalExact(c, "C18.R2.decimal-exact", gen)
}

// regexpSourceOf reconstructs the regexp source of a tagger construction.
func regexpSourceOf(pk *packages.Package, tc taggerCons) (string, bool) {
	info := pk.TypesInfo
	obj := pk.Types.Scope().Lookup(tc.rxConst)
	if obj == nil {
		return "", false
	}
	switch o := obj.(type) {
	case *types.Const:
		if s := o.Val().ExactString(); len(s) >= 2 {
			var un string
			if _, err := fmt.Sscanf(s, "%q", &un); err == nil {
				return strings.ReplaceAll(un, "%s", ""), true
			}
		}
	case *types.Var:
		if init := load.PkgVarValue(pk, tc.rxConst); init != nil {
			if call, ok := init.(*ast.CallExpr); ok && len(call.Args) == 1 {
				if s, ok := goan.StringVal(info, call.Args[0]); ok {
					return s, true
				}
			}
		}
	}
	return "", false
}

func checkAnnotations(c *Ctx, ev *tmpl.Evaluator, scan *packages.Package) {
	info := scan.TypesInfo
	accepted := map[string]bool{}
	if fd := load.FuncDecl(scan, "typeIndex.detectNodes"); fd != nil {
		ast.Inspect(fd.Body, func(n ast.Node) bool {
			cc, ok := n.(*ast.CaseClause)
			if !ok {
				return true
			}
			for _, e := range cc.List {
				if s, ok := goan.StringVal(info, e); ok {
					accepted[s] = true
				}
			}
			return true
		})
	}
	if len(accepted) < 8 {
		c.Anchor("C18.R1.vocabulary", "typeIndex.detectNodes", "classifier cases not found")
		return
	}
	// `swagger:model <name>` is written for every definition: the scanner's pattern must take a name of any length
	if lit, ok := packageRegexpByName(scan, "rxModelOverride"); !ok {
		c.Anchor("C18.R1.vocabulary", "codescan.rxModelOverride", "not a package-level regexp compiled from a literal")
	} else if rx, err := regexp.Compile(lit); err != nil {
		c.Anchor("C18.R1.vocabulary", "codescan.rxModelOverride", "literal does not compile")
	} else {
		bad := ""
		for _, nm := range []string{"T", "Ab", "Pet", "pet_store2"} {
			if m := rx.FindStringSubmatch("swagger:model " + nm); m == nil || m[len(m)-1] != nm {
				bad = nm
			}
		}
		c.Check(bad == "", "C18.R1.vocabulary", "codescan.rxModelOverride › accepts the names the generator writes", "codescan/regexprs.go", "one-letter and longer names are captured",
			"`swagger:model "+bad+"` is not matched by "+lit+": a definition with that name is generated with the annotation and then left out of the scanned spec")
	}
	// the name written after swagger:model is the definition's own name (.OriginalName), not the Go name x-go-name may have given it
	if l := linearOf(c, ev, "annotations"); l == nil {
		c.Anchor("C18.R1.vocabulary", "template annotations", "not found")
	} else {
		occ := l.Find(regexp.MustCompile(`swagger:model ((?:⟦[^⟧]*⟧)+)`))
		okName := len(occ) > 0
		for _, oc := range occ {
			if !strings.Contains(oc.Match[1], ".OriginalName") {
				okName = false
			}
		}
		c.Check(okName, "C18.R1.vocabulary", "annotations › swagger:model carries the definition's name", l.Tree.File, ".OriginalName",
			"the model annotation is written with the Go name (.Name, which x-go-name replaces): scanning the generated models renames the definition and every $ref to it")
	}
	annRx := regexp.MustCompile(`swagger:([A-Za-z]+)`)
	for _, name := range []string{"annotations", "model", "schema", "schemaBody", "structfield", "docstring"} {
		t := ev.F.Trees[name]
		if t == nil {
			continue
		}
		seen := map[string]bool{}
		var walk func(l *parse.ListNode)
		walk = func(l *parse.ListNode) {
			if l == nil {
				return
			}
			for _, n := range l.Nodes {
				switch x := n.(type) {
				case *parse.TextNode:
					for _, mm := range annRx.FindAllStringSubmatch(string(x.Text), -1) {
						if !seen[mm[1]] {
							seen[mm[1]] = true
							c.Check(accepted[mm[1]], "C18.R1.vocabulary", fmt.Sprintf("%s › annotation swagger:%s", name, mm[1]), t.PosStr(x.Pos), "accepted by the scanner's classifier",
								"the template emits swagger:"+mm[1]+" but the classifier of generate spec has no case for it: scanning the generated models fails with 'unknown swagger annotation'")
						}
					}
				case *parse.IfNode:
					walk(x.List)
					walk(x.ElseList)
				case *parse.WithNode:
					walk(x.List)
					walk(x.ElseList)
				case *parse.RangeNode:
					walk(x.List)
				}
			}
		}
		walk(t.Tree.Root)
	}
}

// checkInverseTables: for every Go builtin the scanner maps to (type, format), the generator
// maps (type, format) back to that builtin, except the documented many-to-one rows.
func checkInverseTables(c *Ctx, gen, scan *packages.Package) {
	rule := "C18.R3.inverse-tables"
	c.Rule(rule, "generator formatMapping/typeMapping is the inverse of the scanner's builtin table on Go builtins (except int→int64, uint/uintptr→uint64, byte→uint8, rune→int32)", 15)
	manyToOne := map[string]string{"int": "int64", "uint": "uint64", "uintptr": "uint64", "byte": "uint8", "rune": "int32"}
	tmap, _ := strTable(gen, "typeMapping")
	fm := load.PkgVarValue(gen, "formatMapping")
	fmap := map[string]map[string]string{}
	for _, outer := range goan.Rows(fm) {
		ok, _ := goan.StringVal(gen.TypesInfo, outer.Key)
		fmap[ok] = map[string]string{}
		for _, r := range goan.Rows(outer.Val) {
			ik, _ := goan.StringVal(gen.TypesInfo, r.Key)
			v, _ := goan.StringVal(gen.TypesInfo, r.Val)
			fmap[ok][ik] = v
		}
	}
	if len(fmap) < 3 || tmap == nil {
		c.Anchor(rule, "generator.formatMapping/typeMapping", "tables not found")
		return
	}
	var names []string
	for k := range builtinRef {
		names = append(names, k)
	}
	sort.Strings(names)
	for _, goT := range names {
		tf := builtinRef[goT]
		back := ""
		if tf[1] != "" {
			back = fmap[tf[0]][tf[1]]
		} else {
			back = tmap[tf[0]]
		}
		want := goT
		if m, ok := manyToOne[goT]; ok {
			want = m
		}
		c.Check(back == want, rule, fmt.Sprintf("%s → %s/%s → %s", goT, tf[0], tf[1], back), "", "round-trips to "+want,
			fmt.Sprintf("Go %s is scanned as %s/%s, which the generator turns into %q (expected %s): the regenerated model changes type", goT, tf[0], tf[1], back, want))
	}
}

func checkRoundTripWiring(c *Ctx, gen, scan *packages.Package) {
	rule := "C18.R4.wiring"
	c.Rule(rule, "schemaValidations() passes the schema's own Required/ReadOnly flags to the templates; the scanner decodes `// Enum:` lists as JSON (json.Unmarshal + strconv.Unquote), the encoding `json .Enum` writes", 3)
	info := gen.TypesInfo
	if fd := load.FuncDecl(gen, "schemaGenContext.schemaValidations"); fd == nil {
		c.Anchor(rule, "schemaGenContext.schemaValidations", "not found")
	} else {
		recv := info.Defs[fd.Recv.List[0].Names[0]]
		found := false
		ast.Inspect(fd.Body, func(n ast.Node) bool {
			kv, ok := n.(*ast.KeyValueExpr)
			if !ok || !goan.IsIdent(kv.Key, "Required") {
				return true
			}
			found = true
			se, isSel := ast.Unparen(kv.Value).(*ast.SelectorExpr)
			ok2 := isSel && se.Sel.Name == "Required" && identIs(info, se.X, recv)
			c.Check(ok2, rule, "generator.schemaGenContext.schemaValidations › Required", c.posOf(gen, kv.Pos()), "exactly the schema context's Required",
				fmt.Sprintf("Required is computed as %s instead of the schema's own required-ness: `// Required: true` (and the required pointer/omitempty decisions) are dropped for some required properties", goan.ExprString(kv.Value)))
			return true
		})
		if !found {
			c.Anchor(rule, "schemaValidations › Required", "field not found in the literal")
		}
	}
	si := scan.TypesInfo
	if fd := load.FuncDecl(scan, "parseEnum"); fd == nil {
		c.Anchor(rule, "codescan.parseEnum", "not found")
	} else {
		hasJSON, hasUnquote := false, false
		ast.Inspect(fd.Body, func(n ast.Node) bool {
			if call, ok := n.(*ast.CallExpr); ok {
				if fn := goan.Callee(si, call); fn != nil {
					switch goan.CalleeName(fn) {
					case "encoding/json.Unmarshal":
						hasJSON = true
					case "strconv.Unquote":
						hasUnquote = true
					}
				}
			}
			return true
		})
		c.Check(hasJSON, rule, "codescan.parseEnum › list decoded with json.Unmarshal", c.posOf(scan, fd.Pos()), "JSON array", "the enum list is not decoded as a JSON array although the generator writes `json .Enum`")
		c.Check(hasUnquote, rule, "codescan.parseEnum › elements unquoted with strconv.Unquote / JSON", c.posOf(scan, fd.Pos()), "escape sequences decoded", "enum elements are not JSON-unquoted: values containing <, >, &, quotes or backslashes come back as their escape text")
	}
}

var boundMarkerRx = regexp.MustCompile(`(Minimum|Maximum): ([<>]) `)

// checkExclusiveMarkers: in every doc-comment template the `> ` / `< ` marker that the scanner
// reads as exclusiveMinimum / exclusiveMaximum is emitted under the flag of the same bound.
func checkExclusiveMarkers(c *Ctx, ev *tmpl.Evaluator) {
	rule := "C18.R1.exclusive-markers"
	c.Rule(rule, "`Minimum: > ` is emitted under .ExclusiveMinimum and `Maximum: < ` under .ExclusiveMaximum, in every template that writes validation doc comments", 4)
	for _, tn := range ev.F.Names() {
		l := linearOf(c, ev, tn)
		k := 0
		for _, m := range boundMarkerRx.FindAllStringSubmatchIndex(l.Text, -1) {
			k++
			bound, marker := l.Text[m[2]:m[3]], l.Text[m[4]:m[5]]
			gs := l.GuardsAt(m[4])
			inner := ""
			if len(gs) > 0 && gs[len(gs)-1].Kind == "if" {
				inner = strings.TrimSpace(gs[len(gs)-1].Pipe)
			}
			wantMarker := map[string]string{"Minimum": ">", "Maximum": "<"}[bound]
			ok := marker == wantMarker && inner == ".Exclusive"+bound
			c.Check(ok, rule, fmt.Sprintf("%s › %s › %s exclusive marker #%d", l.Tree.Asset, tn, bound, k), l.Tree.PosStr(l.PosAt(m[4])), "`"+wantMarker+" ` under .Exclusive"+bound,
				fmt.Sprintf("the `%s ` marker of the %s doc line is emitted under `%s`: a rescanned model gets the exclusive flag of the other bound", marker, bound, inner))
		}
	}
}

// checkDocLineFlags: a validation doc line must be emitted whenever its own keyword is set in
// the schema, whatever the other keywords are: the conjunction of the guards around the line
// holds in the model where only the atoms of the innermost guard are true.
func checkDocLineFlags(c *Ctx, ev *tmpl.Evaluator) {
	rule := "C18.R1.own-flag"
	c.Rule(rule, "each validation doc line is emitted under its own keyword's flag alone: the guards around it hold when only that flag is set", 14)
	rx := regexp.MustCompile(`// [A-Z][A-Za-z ]*: `)
	for _, def := range []string{"propertyValidationDocString", "docstring"} {
		l := linearOf(c, ev, def)
		if l == nil {
			c.Anchor(rule, def, "template not found")
			continue
		}
		for _, oc := range l.Find(rx) {
			gs := l.GuardsAt(oc.Start + 3)
			line := strings.TrimSpace(l.Text[oc.Start:oc.End])
			key := fmt.Sprintf("%s › line %q", def, line)
			var inner *tmpl.Guard
			for i := len(gs) - 1; i >= 0; i-- {
				if gs[i].Kind == "if" {
					inner = &gs[i]
					break
				}
			}
			if inner == nil {
				continue // unconditional text (titles, descriptions)
			}
			own := map[string]bool{}
			tmpl.ParseCond(inner.Pipe).Atoms(own)
			all := map[string]bool{}
			stack := tmpl.StackCond(gs)
			stack.Atoms(all)
			var others []string
			for a := range all {
				if !own[a] {
					others = append(others, a)
				}
			}
			sort.Strings(others)
			holds := len(others) <= 12
			for mask := 0; holds && mask < 1<<len(others); mask++ {
				env := map[string]bool{}
				for a := range own {
					env[a] = true
				}
				for i, a := range others {
					env[a] = mask&(1<<i) != 0
				}
				if !stack.Eval(env) {
					holds = false
				}
			}
			// … and "set" means present: a keyword whose value is zero (maxLength: 0, minItems: 0) is
			// a constraint like any other. The guard tests the field the line prints as it is, it does
			// not hand it to a predicate on its value (gt0, gt, ne …).
			if eol := strings.Index(l.Text[oc.Start:], "\n"); eol > 0 {
				printed := map[string]bool{}
				for _, m := range regexp.MustCompile(`⟦([^⟧]*)⟧`).FindAllStringSubmatch(l.Text[oc.Start:oc.Start+eol], -1) {
					for _, f := range regexp.MustCompile(`\.[A-Z]\w*`).FindAllString(m[1], -1) {
						printed[f] = true
					}
				}
				pred := ""
				toks := strings.Fields(strings.NewReplacer("(", " ( ", ")", " ) ").Replace(inner.Pipe))
				for i, tk := range toks {
					if tk == "and" || tk == "or" || tk == "not" || tk == "(" || tk == ")" || strings.HasPrefix(tk, ".") || strings.HasPrefix(tk, "$") {
						continue
					}
					// a function word: does it take a printed field?
					for _, arg := range toks[i+1:] {
						if arg == ")" {
							break
						}
						if printed[arg] {
							pred = tk + " " + arg
						}
					}
				}
				c.Check(pred == "", rule, key+" › emitted when the keyword is present", l.Tree.PosStr(oc.Pos), "the guard tests the presence of the field, not its value",
					fmt.Sprintf("the line is emitted under `%s`: a keyword set to a value the predicate rejects (maxLength: 0, minItems: 0 …) is left out of the doc comment, and the scanned spec no longer has the constraint", pred))
			}
			c.Check(holds, rule, key, l.Tree.PosStr(oc.Pos), "emitted whenever "+strings.TrimSpace(inner.Pipe)+" is set, whatever the other flags are",
				fmt.Sprintf("the line is emitted under [%s]: a schema that sets only %s loses the keyword in the generated doc comment, and with it in the scanned spec", tmpl.GuardString(gs), strings.TrimSpace(inner.Pipe)))
		}
	}
}

// checkImportsIndexed: the scanner resolves the declaration (and swagger:strfmt annotation) of a
// field's type through typeIndex.AllPackages; every package reached through the imports must
// be entered there, whatever the include/exclude rules say about scanning it for models.
func checkImportsIndexed(c *Ctx, rule string, scan *packages.Package) {
	c.Rule(rule, "typeIndex.walkImports registers every imported package in AllPackages; the only skip is the already-registered test", 1)
	fd := load.FuncDecl(scan, "typeIndex.walkImports")
	if fd == nil {
		c.Anchor(rule, "codescan.typeIndex.walkImports", "not found")
		return
	}
	info := scan.TypesInfo
	n := 0
	goan.WalkGuards(info, fd.Body, func(nd ast.Node, guards []goan.Lit, _ []ast.Stmt) {
		as, ok := nd.(*ast.AssignStmt)
		if !ok || len(as.Lhs) != 1 {
			return
		}
		ix, ok := as.Lhs[0].(*ast.IndexExpr)
		if !ok || goan.LastSel(ix.X) != "AllPackages" {
			return
		}
		n++
		var extra []string
		for _, g := range guards {
			// allowed: the comma-ok result of a lookup in AllPackages, and the function-level excludeDeps switch
			if goan.LastSel(g.E) == "excludeDeps" || g.NonEmpty {
				continue
			}
			if id, ok := ast.Unparen(g.E).(*ast.Ident); ok {
				isKnown := false
				ast.Inspect(fd.Body, func(m ast.Node) bool {
					if a2, ok := m.(*ast.AssignStmt); ok && len(a2.Lhs) == 2 && len(a2.Rhs) == 1 {
						if l1, ok := a2.Lhs[1].(*ast.Ident); ok && info.ObjectOf(l1) == info.ObjectOf(id) {
							if i2, ok := ast.Unparen(a2.Rhs[0]).(*ast.IndexExpr); ok && goan.LastSel(i2.X) == "AllPackages" {
								isKnown = true
							}
						}
					}
					return true
				})
				if isKnown {
					continue
				}
			}
			extra = append(extra, goan.ExprString(g.E))
		}
		c.Check(len(extra) == 0, rule, "codescan.typeIndex.walkImports › every import is registered", c.posOf(scan, as.Pos()), "guarded by the already-registered test only",
			fmt.Sprintf("the registration of an imported package also depends on %v: types of a skipped package (e.g. strfmt under --exclude) lose their declaration, and fields of those types are scanned without type and format", extra))
	})
	if n == 0 {
		c.Unk(rule, "codescan.typeIndex.walkImports › every import is registered", c.posOf(scan, fd.Pos()), "no store into AllPackages found")
	}
}

// packageRegexpByName: the literal a package-level regexp variable is compiled from.
func packageRegexpByName(pk *packages.Package, name string) (string, bool) {
	for _, f := range pk.Syntax {
		for _, d := range f.Decls {
			gd, ok := d.(*ast.GenDecl)
			if !ok || gd.Tok != token.VAR {
				continue
			}
			for _, sp := range gd.Specs {
				vs := sp.(*ast.ValueSpec)
				for i, nm := range vs.Names {
					if nm.Name != name || i >= len(vs.Values) {
						continue
					}
					if call, ok := vs.Values[i].(*ast.CallExpr); ok && len(call.Args) == 1 {
						if fn := goan.Callee(pk.TypesInfo, call); fn != nil && goan.CalleeName(fn) == "regexp.MustCompile" {
							return goan.StringVal(pk.TypesInfo, call.Args[0])
						}
					}
				}
			}
		}
	}
	return "", false
}

// checkValueParsers: enum / default / example values written in doc comments are typed by
// parseValueFromSchema from SimpleSchema.TypeName(), which is the format when there is one. Every
// (type, format) pair the scanner's own builtin table assigns to a numeric or boolean Go type must
// therefore be a label of the case that parses that kind — otherwise the values come back as strings.
func checkValueParsers(c *Ctx, rule string, scan *packages.Package) {
	c.Rule(rule, "parseValueFromSchema has, for every numeric/boolean (type, format) of the scanner's builtin table, a case labelled by the type name in use (the format if any) that parses that kind", 12)
	fd := load.FuncDecl(scan, "parseValueFromSchema")
	if fd == nil {
		c.Anchor(rule, "codescan.parseValueFromSchema", "not found")
		return
	}
	info := scan.TypesInfo
	kindOf := map[string]string{} // label → integer | number | boolean
	ast.Inspect(fd.Body, func(n ast.Node) bool {
		cc, ok := n.(*ast.CaseClause)
		if !ok {
			return true
		}
		kind := ""
		ast.Inspect(cc, func(m ast.Node) bool {
			if call, ok := m.(*ast.CallExpr); ok {
				if fn := goan.Callee(info, call); fn != nil {
					switch goan.CalleeName(fn) {
					case "strconv.Atoi", "strconv.ParseInt", "strconv.ParseUint":
						kind = "integer"
					case "strconv.ParseFloat":
						kind = "number"
					case "strconv.ParseBool":
						kind = "boolean"
					}
				}
			}
			return true
		})
		if kind == "" {
			return true
		}
		for _, e := range cc.List {
			if s, ok := goan.StringVal(info, e); ok {
				kindOf[s] = kind
			}
		}
		return true
	})
	var names []string
	for k := range builtinRef {
		names = append(names, k)
	}
	sort.Strings(names)
	seen := map[string]bool{}
	for _, goT := range names {
		tf := builtinRef[goT]
		if tf[0] != "integer" && tf[0] != "number" && tf[0] != "boolean" {
			continue
		}
		label := tf[1]
		if label == "" {
			label = tf[0]
		}
		for _, l := range []string{label, tf[0]} {
			if seen[l] {
				continue
			}
			seen[l] = true
			c.Check(kindOf[l] == tf[0], rule, "codescan.parseValueFromSchema › "+l, c.posOf(scan, fd.Pos()), "parsed as "+tf[0],
				fmt.Sprintf("a schema of type %s whose type name is %q (Go %s) has no case parsing %s values (found: %q): enum, default and example values of such a property are kept as strings", tf[0], l, goT, tf[0], kindOf[l]))
		}
	}
}

// checkStrfmtNames: a format mapped to a strfmt type comes back from the scanner under the name
// that type is registered with in strfmt's default registry (the scanner reads the swagger:strfmt
// annotation of the type). Each row `format → strfmt.T` of formatMapping must therefore name the
// type that strfmt registers under that format name (aliases: date-time = datetime, objectid =
// ObjectId = bsonobjectid).
func checkStrfmtNames(c *Ctx, gen *packages.Package) {
	rule := "C18.R3.strfmt-names"
	c.Rule(rule, "every `format → strfmt.T` row of the generator's formatMapping names the type that go-openapi/strfmt registers under that format", 20)
	deps := c.ProgDeps("./generator")
	sf := deps.Pkg("github.com/go-openapi/strfmt")
	if sf == nil || len(sf.Syntax) == 0 {
		c.Anchor(rule, "github.com/go-openapi/strfmt", "syntax of the dependency not loaded")
		return
	}
	registry := map[string]string{}
	for _, f := range sf.Syntax {
		ast.Inspect(f, func(n ast.Node) bool {
			call, ok := n.(*ast.CallExpr)
			if !ok || len(call.Args) < 2 {
				return true
			}
			se, ok := call.Fun.(*ast.SelectorExpr)
			if !ok || se.Sel.Name != "Add" || goan.ExprString(se.X) != "Default" {
				return true
			}
			name, ok := goan.StringVal(sf.TypesInfo, call.Args[0])
			if !ok {
				return true
			}
			if un, ok := ast.Unparen(call.Args[1]).(*ast.UnaryExpr); ok && un.Op == token.AND {
				if t := sf.TypesInfo.TypeOf(un.X); t != nil {
					registry[name] = goan.NamedName(t)
				}
			}
			return true
		})
	}
	if len(registry) < 20 {
		c.Anchor(rule, "strfmt.Default.Add calls", fmt.Sprintf("only %d registrations found", len(registry)))
		return
	}
	alias := map[string]string{"date-time": "datetime", "objectid": "bsonobjectid", "ObjectId": "bsonobjectid"}
	fm := load.PkgVarValue(gen, "formatMapping")
	have := map[string]bool{}
	for _, outer := range goan.Rows(fm) {
		for _, r := range goan.Rows(outer.Val) {
			if k, ok := goan.StringVal(gen.TypesInfo, r.Key); ok {
				have[k] = true
			}
		}
	}
	var regs []string
	for k := range registry {
		regs = append(regs, k)
	}
	sort.Strings(regs)
	for _, k := range regs {
		c.Check(have[k], rule, "generator.formatMapping › covers strfmt format "+k, "", "has a row",
			"strfmt registers the format "+k+" (validated by go-openapi/validate at run time) but formatMapping has no row for it: such a property is generated as a plain string, without validation, and its format is lost when the models are scanned back")
	}
	for _, outer := range goan.Rows(fm) {
		for _, r := range goan.Rows(outer.Val) {
			k, _ := goan.StringVal(gen.TypesInfo, r.Key)
			v, _ := goan.StringVal(gen.TypesInfo, r.Val)
			if !strings.HasPrefix(v, "strfmt.") {
				continue
			}
			reg := k
			if a, ok := alias[k]; ok {
				reg = a
			}
			want, known := registry[reg]
			c.Check(known && "strfmt."+want == v, rule, "generator.formatMapping › "+k, c.posOf(gen, r.Key.Pos()), v+" is registered as "+reg,
				fmt.Sprintf("format %q is mapped to %s but strfmt registers %q for strfmt.%s (known=%v): the generated model validates and scans back as another format", k, v, reg, want, known))
		}
	}
}


// checkDocValuesVerbatim: the values written on the validation doc lines are read back by the
// scanner as they stand. `comment` only re-prefixes continuation lines; a sanitiser that rewrites
// characters (blockcomment turns `*/` into `[*]/`) changes the pattern, the default, the example
// that comes back.
func checkDocValuesVerbatim(c *Ctx, rule string, ev *tmpl.Evaluator) {
	c.Rule(rule, "no value on a doc line the scanner reads back passes through a sanitiser that rewrites characters (blockcomment, escapeBackticks, …): only `comment`, `json`, `printf`", 2)
	for _, def := range []string{"propertyValidationDocString", "docstring"} {
		l := linearOf(c, ev, def)
		if l == nil {
			c.Anchor(rule, def, "template not found")
			continue
		}
		var bad []string
		for _, m := range regexp.MustCompile(`⟦([^⟧]*)⟧`).FindAllStringSubmatch(l.Text, -1) {
			for _, f := range []string{"blockcomment", "escapeBackticks"} {
				if regexp.MustCompile(`(^|[ (|])` + f + `([ )]|$)`).MatchString(m[1]) {
					bad = append(bad, "{{"+strings.TrimSpace(m[1])+"}}")
				}
			}
		}
		c.Check(len(bad) == 0, rule, l.Tree.Asset+" › "+def+" › values are written as they are", l.Tree.File, "only line-comment padding is applied",
			fmt.Sprintf("the doc template rewrites the value it prints (%v): the scanner reads the rewritten text back, so a pattern such as `^/mnt/.*/$` returns as `^/mnt/.[*]/$`", bad))
	}
}

// checkDecimalExact: the `decimal` template function writes the bounds (minimum, maximum, multipleOf) into the
// doc comments the scanner reads back. Every non-empty result is strconv.FormatFloat(*v, 'f', -1, 64): the
// shortest decimal that parses back to the same float64. A detour through an integer type overflows from 2^63
// (the uint64 maximum is a bound the generator's own formats produce) and a %g/%v rendering writes exponents
// the scanner's patterns do not match.
func checkDecimalExact(c *Ctx, rule string, gen *packages.Package) {
	c.Rule(rule, "every non-empty result of the template function `decimal` is strconv.FormatFloat(*v, 'f', -1, 64), and the function converts no float to an integer type", 1)
	info := gen.TypesInfo
	found := false
	for _, fd := range load.AllFuncs(gen) {
		if fd.Body == nil || fd.Recv != nil || fd.Name.Name != "decimal" {
			continue
		}
		found = true
		bad := ""
		ast.Inspect(fd.Body, func(m ast.Node) bool {
			switch x := m.(type) {
			case *ast.CallExpr:
				if tv, ok := info.Types[x.Fun]; ok && tv.IsType() && len(x.Args) == 1 {
					if to, ok := tv.Type.Underlying().(*types.Basic); ok && to.Info()&types.IsInteger != 0 {
						if from, ok := info.TypeOf(x.Args[0]).Underlying().(*types.Basic); ok && from.Info()&types.IsFloat != 0 {
							bad = "`" + goan.ExprString(x) + "` converts the bound to " + to.Name() + ": from 2^63 on (maximum: 18446744073709551615, the uint64 range) the conversion overflows and the comment carries another number than the schema"
						}
					}
				}
			case *ast.ReturnStmt:
				if len(x.Results) != 1 {
					return true
				}
				r := goan.ResolveLocal(info, fd.Body, x.Results[0])
				if s, ok := goan.StringVal(info, r); ok && s == "" {
					return true
				}
				call, ok := ast.Unparen(r).(*ast.CallExpr)
				fn := (*types.Func)(nil)
				if ok {
					fn = goan.Callee(info, call)
				}
				if fn == nil || fn.FullName() != "strconv.FormatFloat" || len(call.Args) != 4 {
					if bad == "" {
						bad = "`return " + goan.ExprString(x.Results[0]) + "` is not strconv.FormatFloat(*v, 'f', -1, 64)"
					}
					return true
				}
				f, _ := constIntOf(info, call.Args[1])
				p, _ := constIntOf(info, call.Args[2])
				b, _ := constIntOf(info, call.Args[3])
				if f != 'f' || p != -1 || b != 64 {
					bad = "`" + goan.ExprString(call) + "`: only ('f', -1, 64) writes the shortest exponent-free decimal that parses back to the same value"
				}
			}
			return true
		})
		c.Check(bad == "", rule, "generator.decimal › exact rendering", c.posOf(gen, fd.Pos()), "strconv.FormatFloat(*v, 'f', -1, 64)", bad)
	}
	if !found {
		c.Anchor(rule, "generator.decimal", "not found")
	}
}

func constIntOf(info *types.Info, e ast.Expr) (int64, bool) {
	tv, ok := info.Types[e]
	if !ok || tv.Value == nil {
		return 0, false
	}
	return constant.Int64Val(constant.ToInt(tv.Value))
}
