package props

import (
	"fmt"
	"go/ast"
	"go/types"

	"golang.org/x/tools/go/packages"

	"verif/tool/goan"
	"verif/tool/load"
)

// checkArgumentRoles: a call of a same-package function passes, in the position of parameter i, a
// value whose own name (last identifier of the expression) is the name of ANOTHER parameter j of the
// same type — while the value named like parameter i goes to position j: two arguments swapped.
func checkArgumentRoles(c *Ctx, rule string, pk *packages.Package, label string, floor int) {
	c.Rule(rule, "no call passes two same-typed arguments in the positions of each other's namesake parameters", floor)
	info := pk.TypesInfo
	lastName := func(e ast.Expr) string {
		switch x := ast.Unparen(e).(type) {
		case *ast.Ident:
			return x.Name
		case *ast.SelectorExpr:
			return x.Sel.Name
		}
		return ""
	}
	n := 0
	for _, fd := range load.AllFuncs(pk) {
		fd := fd
		ast.Inspect(fd.Body, func(nd ast.Node) bool {
			call, ok := nd.(*ast.CallExpr)
			if !ok {
				return true
			}
			fn := goan.Callee(info, call)
			if fn == nil || fn.Pkg() != pk.Types {
				return true
			}
			sig, _ := fn.Type().(*types.Signature)
			if sig == nil || sig.Variadic() || sig.Params().Len() != len(call.Args) || len(call.Args) < 2 {
				return true
			}
			named := 0
			swapped := ""
			for i, a := range call.Args {
				ai := lastName(a)
				if ai == "" {
					continue
				}
				pi := sig.Params().At(i)
				if ai == pi.Name() {
					named++
					continue
				}
				for j := 0; j < sig.Params().Len(); j++ {
					pj := sig.Params().At(j)
					if j == i || pj.Name() != ai || !types.Identical(pj.Type(), pi.Type()) {
						continue
					}
					// the value named like parameter j sits in position i; is the value in position j named like parameter i?
					if lastName(call.Args[j]) == pi.Name() {
						swapped = fmt.Sprintf("argument %d (%s) and argument %d (%s) carry each other's parameter names (%s, %s)", i+1, goan.ExprString(a), j+1, goan.ExprString(call.Args[j]), pi.Name(), pj.Name())
					}
				}
			}
			if named >= 2 || swapped != "" {
				n++
				c.Check(swapped == "", rule, fmt.Sprintf("%s.%s › call of %s", label, load.FuncName(fd), fn.Name()), c.posOf(pk, call.Pos()), "arguments named like their parameters are in their positions",
					swapped+": the callee receives them in the wrong roles (every other call site and the parameter names say otherwise)")
			}
			return true
		})
	}
	if n < floor {
		c.Unk(rule, label+" › calls with name-matched arguments", "", fmt.Sprintf("%d calls with at least two arguments named like their parameters found", n))
	}
}
