package props

import (
	"fmt"
	"regexp"
	"sort"
	"strings"

	"verif/tool/tmpl"
)

// staticArity counts the arguments of l.Text[open+1:close] that are emitted unconditionally
// (relative to the guards at the opening parenthesis), at parenthesis depth 0.
func staticArity(l *tmpl.Linear, open int, args string) int {
	if strings.TrimSpace(args) == "" {
		return 0
	}
	base := len(l.GuardsAt(open))
	n, depth, any := 1, 0, false
	for i := 0; i < len(args); i++ {
		if len(l.GuardsAt(open+1+i)) > base {
			continue
		}
		switch args[i] {
		case '(', '[', '{':
			depth++
		case ')', ']', '}':
			depth--
		case ',':
			if depth == 0 {
				n++
			}
		}
		if args[i] != ' ' && args[i] != '\n' && args[i] != '\t' {
			any = true
		}
	}
	if !any {
		return 0
	}
	return n
}

// checkGeneratedCalls: a method that the templates declare under a spec-derived name
// (bind<ID>, validate<Name>, contextValidate<Name>, Set<Name>, …) is called by other template
// text with as many unconditional arguments as some declaration of that name takes, and with
// the same conditional arguments in the same order.
func checkGeneratedCalls(c *Ctx, rule string, ev *tmpl.Evaluator) {
	c.Rule(rule, "every call of a generated method with a spec-derived name passes as many unconditional arguments as a declaration of that name takes, and the same conditional ones in the same order", 25)
	declRx := regexp.MustCompile(`func \([^)]*\) ((?:\w*⟦[^⟧]*⟧\w*)+)\(`)
	type sig struct {
		n    int
		opts string
	}
	decls := map[string][]sig{}
	declPos := map[int]bool{}
	for _, tn := range ev.F.Names() {
		l := linearOf(c, ev, tn)
		if l == nil || strings.HasPrefix(l.Tree.Asset, "contrib/") {
			continue
		}
		for _, oc := range l.Find(declRx) {
			open := oc.End - 1
			args := l.CallArgs(open)
			name := oc.Match[1]
			// `a, b string` declares two parameters in one comma group: count names, not groups — the
			// static comma count already does, since every name is followed by a comma or the type
			decls[name] = append(decls[name], sig{staticArity(l, open, args), strings.Join(optionalArgs(l, open, open+len(args)+1), " ; ")})
		}
	}
	_ = declPos
	var names []string
	for n := range decls {
		names = append(names, n)
	}
	sort.Strings(names)
	for _, name := range names {
		if !strings.ContainsAny(name[:1], "abcdefghijklmnopqrstuvwxyz") {
			continue // exported, name-only methods (Set<Name>, With<ID>, <Name>) are also called by user code and by name shapes that other types share
		}
		callRx := regexp.MustCompile(`[.]` + regexp.QuoteMeta(name) + `\(`)
		for _, tn := range ev.F.Names() {
			l := linearOf(c, ev, tn)
			if l == nil || strings.HasPrefix(l.Tree.Asset, "contrib/") {
				continue
			}
			for k, oc := range l.Find(callRx) {
				open := oc.End - 1
				// a longer name (validate⟦…⟧Enum vs validate⟦…⟧) is a different method: the regexp ends at `(`, so the name is exact on the right; on the left it follows a dot
				args := l.CallArgs(open)
				got := sig{staticArity(l, open, args), strings.Join(optionalArgs(l, open, open+len(args)+1), " ; ")}
				ok := false
				var want []string
				for _, d := range decls[name] {
					if d == got {
						ok = true
					}
					want = append(want, fmt.Sprintf("%d+[%s]", d.n, d.opts))
				}
				c.Check(ok, rule, fmt.Sprintf("%s › %s › call #%d of %s", l.Tree.Asset, tn, k+1, name), l.Tree.PosStr(oc.Pos), fmt.Sprintf("%d unconditional argument(s) + [%s]", got.n, got.opts),
					fmt.Sprintf("%s is called with %d unconditional argument(s) and the conditional ones [%s]; its declarations take %s: the generated code does not compile (or, for same-typed arguments, passes them in the wrong positions)", name, got.n, got.opts, strings.Join(want, " or ")))
			}
		}
	}
}

// optionalArgs lists the guards of the conditionally emitted pieces of l.Text[start:end] that add
// an argument (their text starts with a comma); conditional pieces inside one argument (a type
// spelled two ways, an alternative expression) do not change the shape of the list.
func optionalArgs(l *tmpl.Linear, start, end int) []string {
	base := len(l.GuardsAt(start))
	var out []string
	last := ""
	for off := start; off < end && off < len(l.Text); off++ {
		gs := l.GuardsAt(off)
		sig := ""
		if len(gs) > base {
			sig = tmpl.GuardString(gs[base:])
		}
		if sig != last {
			if sig != "" && strings.HasPrefix(strings.TrimLeft(l.Text[off:end], " \t\n"), ",") {
				out = append(out, sig)
			}
			last = sig
		}
	}
	return out
}

// checkPointerMarkers: the payload of a response is spelled as a type in several places of one
// generated file (the field, its getter, its setters); the `*` in front of the type is conditional —
// and must be emitted under equivalent conditions everywhere, or the file does not compile for the
// schemas on which the conditions disagree.
func checkPointerMarkers(c *Ctx, rule string, ev *tmpl.Evaluator) {
	c.Rule(rule, "the conditional `*` in front of the payload type is emitted under equivalent conditions at the field, getter and setter sites of a response template", 4)
	rx := regexp.MustCompile(`(\bPayload |GetPayload\(\) |\(payload )\*`)
	for _, tn := range []string{"clientresponse", "serverresponse"} {
		l := linearOf(c, ev, tn)
		if l == nil {
			c.Anchor(rule, "template "+tn, "not found")
			continue
		}
		type site struct {
			what string
			pos  string
			cond *tmpl.Cond
		}
		var sites []site
		for _, oc := range l.Find(rx) {
			star := oc.End - 1
			base := len(l.GuardsAt(oc.Start))
			gs := l.GuardsAt(star)
			if len(gs) <= base {
				continue // unconditional star
			}
			sites = append(sites, site{strings.TrimSpace(oc.Match[1]), l.Tree.PosStr(oc.Pos), tmpl.StackCond(gs[base:])})
		}
		if len(sites) < 2 {
			c.Unk(rule, tn+" › payload type sites", l.Tree.File, fmt.Sprintf("%d conditional `*` found", len(sites)))
			continue
		}
		atoms := map[string]bool{}
		for _, s := range sites {
			s.cond.Atoms(atoms)
		}
		var names []string
		for a := range atoms {
			names = append(names, a)
		}
		sort.Strings(names)
		// facts of the view-model that hold for every schema: a stream is never a complex object (resolvedType.setKind is one-hot, C01.R6)
		feasible := func(env map[string]bool) bool {
			return !(env[".Schema.IsStream"] && env[".Schema.IsComplexObject"]) && !(env[".Schema.IsInterface"] && env[".Schema.IsComplexObject"])
		}
		ref := sites[0]
		for _, s := range sites {
			diff := ""
			for mask := 0; mask < 1<<len(names) && diff == ""; mask++ {
				env := map[string]bool{}
				for i, a := range names {
					env[a] = mask&(1<<i) != 0
				}
				if feasible(env) && s.cond.Eval(env) != ref.cond.Eval(env) {
					var on []string
					for _, a := range names {
						if env[a] {
							on = append(on, a)
						}
					}
					diff = strings.Join(on, ", ")
				}
			}
			c.Check(diff == "", rule, fmt.Sprintf("%s › `*` at %q agrees with %q", tn, s.what, ref.what), s.pos, "equivalent conditions",
				fmt.Sprintf("with {%s} set, the pointer marker is emitted at one of %q / %q and not at the other: the generated file declares the payload with two different types and does not compile", diff, s.what, ref.what))
		}
	}
}
