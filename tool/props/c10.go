package props

import (
	"fmt"
	"go/ast"
	"go/token"
	"go/types"
	"sort"
	"os"
	"path/filepath"
	"strings"
	"text/template/parse"

	"golang.org/x/tools/go/packages"

	"verif/tool/goan"
	"verif/tool/load"
	"verif/tool/tmpl"
)

func init() { register("C10", checkC10) }

func checkC10(c *Ctx) {
	c.Explain("embedded spec = input spec: (R1) GenApp.SwaggerJSON is generateReadableSpec(json.MarshalIndent(SpecDoc.OrigSpec())) and FlatSwaggerJSON the same over SpecDoc.Spec(), and nothing else stores to them; (R2) in every template instantiation both fields are emitted untransformed and only inside a Go raw string; (R3) generateReadableSpec iterates the document by rune and replaces a backtick by text that evaluates back to a backtick inside a raw string; (R4) OrigSpec() has a single reader, and the loaded document is replaced after flattening only under FlattenOpts.Expand (Pristine() makes the current — transformed — spec the 'original'); (R5) server/main loads the document with loads.Embedded(SwaggerJSON, FlatSwaggerJSON) in that order in all three flag strategies; (R6) no helper compacts an input slice in place (x[:0] / append(x[:0]…) on a parameter), which would rewrite the flattened spec's own arrays. " +
		"Decides the construction and placement of the two embedded documents, not JSON equality with the input nor semantic equality after flattening (go-openapi/analysis).")
	c.Assume("encoding/json.MarshalIndent of the spec object is a faithful JSON rendering; loads.Embedded(orig, flat) takes the original first (checked against the dependency's parameter names)")
	ev, _, gen := c.evalTemplates("")
	_ = gen.TypesInfo

	// ---- R1 stores
	checkEmbeddedStores(c, "C10.R1.stores", gen)

	// ---- R2 template placement
	c.Rule("C10.R2.placement", "SwaggerJSON / FlatSwaggerJSON are emitted untransformed, only inside a Go raw string", 2)
	nEmit := 0
	for _, e := range ev.Emits {
		for _, o := range e.Val.Origins {
			if o.Owner != "GenApp" || (o.Field != "SwaggerJSON" && o.Field != "FlatSwaggerJSON") {
				continue
			}
			nEmit++
			okCtx := len(e.Context) == 1 && e.Context[0] == tmpl.LRaw
			okFn := len(e.Val.Funcs) == 0
			c.Check(okCtx && okFn, "C10.R2.placement", fmt.Sprintf("%s › {{%s}}", e.Tree.Asset, strings.TrimSpace(e.Pipe)), e.Tree.PosStr(e.Pos), "raw string, no transformation",
				fmt.Sprintf("%s is emitted in context %v with functions %v: the Go-side escaping is only valid inside a raw string literal and must not be post-processed", o.Field, e.Context, e.Val.Funcs))
		}
	}
	if nEmit < 2 {
		c.Unk("C10.R2.placement", "emissions of the embedded documents", "", fmt.Sprintf("found %d emissions, expected both fields", nEmit))
	}

	// ---- R3 escaper
	checkReadableSpec(c, gen)

	// ---- R4 document life cycle
	checkDocLifecycle(c, gen)

	// ---- R5 loads.Embedded order
	checkEmbeddedOrder(c, "C10.R5.embedded-order", ev, gen)
	checkLoadedDocument(c, "C10.R5.loaded-document", gen)
	checkWriteUnconditional(c, "C10.R4.document", gen)
	checkSpecLocation(c, "C10.R4.spec-location", gen)

	// ---- R6 in-place compaction
	checkInPlaceCompaction(c, "C10.R6.no-inplace-filter", gen)
	checkOperationCopy(c, gen)
	checkRenderedBeforePlanning(c, "C10.R7.rendered-before-planning", gen)
}

func checkReadableSpec(c *Ctx, gen *packages.Package) {
	rule := "C10.R3.escaper"
	c.Rule(rule, "generateReadableSpec walks the document rune by rune (range over a string with WriteRune, or bytes with WriteByte) and replaces the backtick by text that evaluates back to a backtick inside a raw string", 2)
	info := gen.TypesInfo
	fd := load.FuncDecl(gen, "generateReadableSpec")
	if fd == nil {
		c.Anchor(rule, "generateReadableSpec", "not found")
		return
	}
	var rs *ast.RangeStmt
	ast.Inspect(fd.Body, func(n ast.Node) bool {
		if r, ok := n.(*ast.RangeStmt); ok && rs == nil {
			rs = r
		}
		return true
	})
	if rs == nil {
		// whole-string replacement form
		ok := false
		ast.Inspect(fd.Body, func(n ast.Node) bool {
			if call, isCall := n.(*ast.CallExpr); isCall {
				if fn := goan.Callee(info, call); fn != nil && (goan.CalleeName(fn) == "strings.ReplaceAll" || goan.CalleeName(fn) == "bytes.ReplaceAll") {
					ok = true
				}
			}
			return true
		})
		c.Check(ok, rule, "generator.generateReadableSpec › unit of iteration", c.posOf(gen, fd.Pos()), "whole-document ReplaceAll", "neither a rune loop nor a ReplaceAll found")
	} else {
		t := info.TypeOf(rs.X)
		isString := false
		if b, ok := t.Underlying().(*types.Basic); ok && b.Info()&types.IsString != 0 {
			isString = true
		}
		writesRune, writesByte := false, false
		ast.Inspect(rs.Body, func(n ast.Node) bool {
			if call, ok := n.(*ast.CallExpr); ok {
				if se, ok := call.Fun.(*ast.SelectorExpr); ok {
					switch se.Sel.Name {
					case "WriteRune":
						writesRune = true
					case "WriteByte":
						writesByte = true
					}
				}
			}
			return true
		})
		ok := (isString && writesRune && !writesByte) || (!isString && writesByte && !writesRune)
		c.Check(ok, rule, "generator.generateReadableSpec › unit of iteration", c.posOf(gen, rs.Pos()),
			"ranges over a string and writes runes (or over bytes and writes bytes)",
			fmt.Sprintf("ranges over %s but writes runes=%v bytes=%v: multi-byte characters are re-encoded byte by byte and every non-ASCII character of the embedded documents is corrupted", t, writesRune, writesByte))
	}
	// nothing but the backtick is rewritten: inside the loop, the only writes are the element itself and
	// one constant (the backtick's replacement)
	if rs != nil {
		var elem types.Object
		if id, ok := rs.Value.(*ast.Ident); ok {
			elem = info.Defs[id]
		}
		var other []string
		consts := map[string]bool{}
		ast.Inspect(rs.Body, func(n ast.Node) bool {
			call, ok := n.(*ast.CallExpr)
			if !ok {
				return true
			}
			name := ""
			if se, ok := call.Fun.(*ast.SelectorExpr); ok {
				name = se.Sel.Name
			}
			switch name {
			case "WriteRune", "WriteByte":
				if len(call.Args) == 1 && elem != nil && identIs(info, call.Args[0], elem) {
					return true
				}
				other = append(other, goan.ExprString(call))
			case "WriteString", "Write":
				if len(call.Args) == 1 {
					if cs, ok := goan.StringVal(info, call.Args[0]); ok {
						consts[cs] = true
						return true
					}
				}
				other = append(other, goan.ExprString(call))
			case "Fprintf", "Fprint", "Fprintln", "Sprintf", "AppendQuote", "Quote", "QuoteToASCII", "AppendRune":
				other = append(other, goan.ExprString(call))
			}
			return true
		})
		c.Check(len(other) == 0 && len(consts) <= 1, rule, "generator.generateReadableSpec › only the backtick is rewritten", c.posOf(gen, rs.Pos()), "every other element is written as it is",
			fmt.Sprintf("inside the loop the document is also written through %v (constants written: %d): characters other than the backtick are transformed, and the embedded documents no longer hold the strings of the input spec", other, len(consts)))
	}
	// replacement text (shared with C09.R3)
	okTick := false
	ast.Inspect(fd.Body, func(n ast.Node) bool {
		call, ok := n.(*ast.CallExpr)
		if !ok {
			return true
		}
		for _, a := range call.Args {
			if s, isStr := goan.StringVal(info, a); isStr && strings.Contains(s, "`") && len(s) > 1 {
				if got, evalOK := evalStringConst("`a" + s + "b`"); evalOK && got == "a`b" {
					okTick = true
				}
			}
		}
		return true
	})
	c.Check(okTick, rule, "generator.generateReadableSpec › backtick replacement", c.posOf(gen, fd.Pos()), "evaluates back to a backtick inside a raw string", "no replacement text that evaluates back to a single backtick inside a Go raw string")
}

func checkDocLifecycle(c *Ctx, gen *packages.Package) {
	rule := "C10.R4.document"
	c.Rule(rule, "OrigSpec() is read once (to embed it); after analysis.Flatten the loaded document is replaced only under FlattenOpts.Expand; reloads after validation come from the same path; FlattenOpts.BasePath and .Spec are set from the current document on every run", 5)
	info := gen.TypesInfo
	n := 0
	for _, fd := range load.AllFuncs(gen) {
		ast.Inspect(fd.Body, func(nd ast.Node) bool {
			if call, ok := nd.(*ast.CallExpr); ok {
				if se, ok := call.Fun.(*ast.SelectorExpr); ok && se.Sel.Name == "OrigSpec" {
					n++
				}
			}
			return true
		})
	}
	c.Check(n == 1, rule, "generator › callers of OrigSpec()", "", "exactly one (makeCodegenApp)", fmt.Sprintf("%d calls to OrigSpec(): the original document may be read (and altered) elsewhere", n))
	fd := load.FuncDecl(gen, "GenOpts.validateAndFlattenSpec")
	if fd == nil {
		c.Anchor(rule, "GenOpts.validateAndFlattenSpec", "not found")
		return
	}
	var flattenPos token.Pos
	ast.Inspect(fd.Body, func(nd ast.Node) bool {
		if call, ok := nd.(*ast.CallExpr); ok {
			if fn := goan.Callee(info, call); fn != nil && goan.CalleeName(fn) == "github.com/go-openapi/analysis.Flatten" {
				flattenPos = call.Pos()
			}
		}
		return true
	})
	if !flattenPos.IsValid() {
		c.Anchor(rule, "validateAndFlattenSpec › analysis.Flatten", "call not found")
		return
	}
	// the per-run inputs of the flattening (base path of relative $refs, analysed spec) are set
	// from this run's document on every run: a GenOpts used twice must not keep the first one's
	nFlat := 0
	goan.WalkGuards(info, fd.Body, func(nd ast.Node, guards []goan.Lit, _ []ast.Stmt) {
		as, ok := nd.(*ast.AssignStmt)
		if !ok || as.Pos() > flattenPos {
			return
		}
		for _, l := range as.Lhs {
			se, ok := ast.Unparen(l).(*ast.SelectorExpr)
			if !ok || goan.LastSel(se.X) != "FlattenOpts" || (se.Sel.Name != "BasePath" && se.Sel.Name != "Spec") {
				continue
			}
			nFlat++
			var own []string
			for _, g := range guards {
				if !g.Early {
					own = append(own, g.String())
				}
			}
			c.Check(len(own) == 0, rule, "generator.GenOpts.validateAndFlattenSpec › FlattenOpts."+se.Sel.Name+" set on every run", c.posOf(gen, as.Pos()), "unconditional",
				fmt.Sprintf("FlattenOpts.%s is set only under [%s]: when the options are used for a second generation, the flattening of the second spec keeps the first spec's %s, and the embedded flattened document is built from the wrong files", se.Sel.Name, strings.Join(own, " ∧ "), se.Sel.Name))
		}
	})
	if nFlat < 2 {
		c.Unk(rule, "generator.GenOpts.validateAndFlattenSpec › FlattenOpts inputs", c.posOf(gen, fd.Pos()), fmt.Sprintf("found %d stores to FlattenOpts.BasePath / FlattenOpts.Spec before analysis.Flatten, expected both", nFlat))
	}
	// the document variable: the first result
	var docObj types.Object
	if as, ok := fd.Body.List[0].(*ast.AssignStmt); ok && len(as.Lhs) >= 1 {
		if id, ok := as.Lhs[0].(*ast.Ident); ok {
			docObj = info.Defs[id]
		}
	}
	if docObj == nil {
		c.Anchor(rule, "validateAndFlattenSpec › document variable", "not found")
		return
	}
	goan.WalkGuards(info, fd.Body, func(nd ast.Node, guards []goan.Lit, _ []ast.Stmt) {
		as, ok := nd.(*ast.AssignStmt)
		if !ok {
			return
		}
		for i, l := range as.Lhs {
			if !identIs(info, l, docObj) || as.Tok == token.DEFINE && as.Pos() == fd.Body.List[0].Pos() {
				continue
			}
			var gs []string
			for _, g := range guards {
				gs = append(gs, g.String())
			}
			rhs := ""
			if i < len(as.Rhs) {
				rhs = goan.ExprString(as.Rhs[i])
			} else if len(as.Rhs) == 1 {
				rhs = goan.ExprString(as.Rhs[0])
			}
			key := fmt.Sprintf("generator.GenOpts.validateAndFlattenSpec › %s = %s", docObj.Name(), rhs)
			if as.Pos() > flattenPos {
				// after flattening: only under exactly FlattenOpts.Expand
				var own []goan.Lit
				for _, g := range guards {
					if !g.Early {
						own = append(own, g)
					}
				}
				ok := len(own) == 1 && own[0].Pos && goan.LastSel(own[0].E) == "Expand" && own[0].Tag == nil
				if be, isBin := ast.Unparen(own[0].E).(*ast.BinaryExpr); ok && isBin {
					_ = be
					ok = false // a compound condition (e.g. Expand || !Minimal) widens the replacement
				}
				c.Check(ok, rule, key, c.posOf(gen, as.Pos()), "replaced only in expand mode",
					fmt.Sprintf("after flattening the document is replaced under [%s]: Pristine() turns the transformed spec into the 'original', so the embedded original is no longer the input spec outside expand mode", strings.Join(gs, " && ")))
			} else {
				// before flattening: a reload from the same source (loads.Spec(g.Spec)) or applyDefaultSwagger
				ok := strings.Contains(rhs, "loads.Spec(g.Spec)") || strings.Contains(rhs, "applyDefaultSwagger(")
				c.Check(ok, rule, key, c.posOf(gen, as.Pos()), "reloaded from the input path", "the document is replaced before flattening by something other than a reload of the input spec")
			}
		}
	})
}

// checkEmbeddedOrder: every loads.Embedded(a, b) in server/main passes SwaggerJSON first and
// FlatSwaggerJSON second, matching the dependency's parameter order (orig, flat).
func checkEmbeddedOrder(c *Ctx, rule string, ev *tmpl.Evaluator, gen *packages.Package) {
	c.Rule(rule, "server/main.gotmpl: loads.Embedded(<pkg>.SwaggerJSON, <pkg>.FlatSwaggerJSON) — original first, flattened second — at every load site", 3)
	// dependency: parameter names of loads.Embedded
	prog := c.ProgDeps("./generator", "github.com/go-openapi/runtime/yamlpc")
	if lp := prog.ByPath["github.com/go-openapi/loads"]; lp != nil {
		if fn, ok := lp.Types.Scope().Lookup("Embedded").(*types.Func); ok {
			sig := fn.Type().(*types.Signature)
			okSig := sig.Params().Len() >= 2 && strings.HasPrefix(sig.Params().At(0).Name(), "orig") && strings.HasPrefix(sig.Params().At(1).Name(), "flat")
			c.Check(okSig, rule, "loads.Embedded › parameter order", "", "(orig, flat)", "the pinned loads.Embedded no longer takes (orig, flat): the template's argument order must be revisited")
		} else {
			c.Anchor(rule, "loads.Embedded", "not found in the dependency")
		}
	} else {
		c.Anchor(rule, "github.com/go-openapi/loads", "dependency not loaded")
	}
	t := ev.F.Trees["serverMain"]
	if t == nil {
		c.Anchor(rule, "serverMain", "template not found")
		return
	}
	// walk text/action sequence: after text ending with "loads.Embedded(" expect action …SwaggerJSON text ", " action …FlatSwaggerJSON
	n := 0
	var walk func(l *parse.ListNode)
	walk = func(l *parse.ListNode) {
		if l == nil {
			return
		}
		for i, nd := range l.Nodes {
			switch x := nd.(type) {
			case *parse.TextNode:
				txt := string(x.Text)
				if !strings.Contains(txt, "loads.Embedded(") {
					continue
				}
				n++
				// following text up to the closing parenthesis
				rest := txt[strings.LastIndex(txt, "loads.Embedded(")+len("loads.Embedded("):]
				for _, nx := range l.Nodes[i+1:] {
					if tn, ok := nx.(*parse.TextNode); ok {
						rest += string(tn.Text)
						if strings.Contains(string(tn.Text), ")") {
							break
						}
					} else {
						rest += "§"
					}
				}
				rest = rest[:strings.IndexByte(rest, ')')]
				args := strings.Split(rest, ",")
				ok := len(args) == 2 && strings.HasSuffix(strings.TrimSpace(args[0]), ".SwaggerJSON") && strings.HasSuffix(strings.TrimSpace(args[1]), ".FlatSwaggerJSON")
				c.Check(ok, rule, fmt.Sprintf("server/main.gotmpl › loads.Embedded call #%d", n), t.PosStr(x.Pos), "SwaggerJSON, FlatSwaggerJSON", fmt.Sprintf("arguments are (%s): the server would serve the flattened document as /swagger.json and route on the original", strings.TrimSpace(rest)))
			case *parse.IfNode:
				walk(x.List)
				walk(x.ElseList)
			case *parse.RangeNode:
				walk(x.List)
				walk(x.ElseList)
			case *parse.WithNode:
				walk(x.List)
				walk(x.ElseList)
			}
		}
	}
	walk(t.Tree.Root)
	if n < 3 {
		c.Unk(rule, "server/main.gotmpl › load sites", "", fmt.Sprintf("found %d loads.Embedded sites, expected one per flag strategy (3)", n))
	}
}

// checkInPlaceCompaction: `p[:0]` where p is a slice parameter (or a field path of one) — the
// "filter in place" idiom rewrites the caller's backing array.
func checkInPlaceCompaction(c *Ctx, rule string, gen *packages.Package) {
	c.Rule(rule, "no function compacts a slice parameter in place (p[:0] reuse): the slices handed around belong to the loaded spec", 1)
	info := gen.TypesInfo
	n := 0
	for _, fd := range load.AllFuncs(gen) {
		fd := fd
		ast.Inspect(fd.Body, func(nd ast.Node) bool {
			se, ok := nd.(*ast.SliceExpr)
			if !ok || se.High == nil {
				return true
			}
			if v := goan.ConstVal(info, se.High); v == nil || v.String() != "0" || se.Low != nil && goan.ConstVal(info, se.Low).String() != "0" {
				return true
			}
			root := se.X
			for {
				if s, ok := ast.Unparen(root).(*ast.SelectorExpr); ok {
					root = s.X
					continue
				}
				break
			}
			id, ok := ast.Unparen(root).(*ast.Ident)
			if !ok {
				return true
			}
			v, _ := info.Uses[id].(*types.Var)
			if v == nil {
				return true
			}
			isParam := false
			for _, fl := range fd.Type.Params.List {
				for _, nm := range fl.Names {
					if info.Defs[nm] == v {
						isParam = true
					}
				}
			}
			if !isParam {
				return true
			}
			n++
			c.Bad(rule, fmt.Sprintf("generator.%s › %s", load.FuncName(fd), goan.ExprString(se)), c.posOf(gen, se.Pos()),
				"re-slicing a parameter to length 0 and appending to it filters the caller's array in place: entries of the loaded (flattened) spec are overwritten and the embedded document no longer matches the input")
			return true
		})
	}
	// the helpers that filter spec slices build fresh results
	for _, fn := range []string{"pruneEmpty"} {
		fd := load.FuncDecl(gen, fn)
		if fd == nil {
			c.Anchor(rule, fn, "not found")
			continue
		}
		c.Ok(rule, "generator."+fn+" › builds a fresh slice", c.posOf(gen, fd.Pos()), "no p[:0] reuse of the parameter")
	}
	_ = n
}

// checkOperationCopy: the generator renames operations (missing / clashing ids) on copies: the
// opRef built by gatherOperations points to a local copy of the analysed operation, so the ids
// it assigns never reach the flattened document that gets embedded.
func checkOperationCopy(c *Ctx, gen *packages.Package) {
	rule := "C10.R6.no-inplace-filter"
	fd := load.FuncDecl(gen, "gatherOperations")
	if fd == nil {
		c.Anchor(rule, "generator.gatherOperations", "not found")
		return
	}
	info := gen.TypesInfo
	ok, found := false, false
	ast.Inspect(fd.Body, func(n ast.Node) bool {
		kv, isKV := n.(*ast.KeyValueExpr)
		if !isKV || !goan.IsIdent(kv.Key, "Op") {
			return true
		}
		found = true
		un, isUn := ast.Unparen(kv.Value).(*ast.UnaryExpr)
		if !isUn || un.Op != token.AND {
			return true
		}
		def := goan.ResolveLocal(info, fd.Body, un.X)
		if st, isStar := ast.Unparen(def).(*ast.StarExpr); isStar && st != nil {
			ok = true
		}
		return true
	})
	c.Check(ok && found, rule, "generator.gatherOperations › opRef.Op points to a copy of the analysed operation", c.posOf(gen, fd.Pos()), "Op: &<local := *operation>",
		"opRef.Op aliases the operation of the analysed (flattened) document: the ids the generator assigns to unnamed or clashing operations are written into the spec that is then embedded, so the embedded flat document no longer matches the input")
}

// checkEmbeddedStores: SwaggerJSON / FlatSwaggerJSON are each stored once, as
// generateReadableSpec(json of OrigSpec() / Spec()): both documents pass the escaper
// unconditionally and come from the matching document.
func checkEmbeddedStores(c *Ctx, rule string, gen *packages.Package) {
	c.Rule(rule, "SwaggerJSON ⟸ generateReadableSpec(MarshalIndent(OrigSpec() or a value decoded from Raw())), FlatSwaggerJSON ⟸ generateReadableSpec(MarshalIndent(Spec())); no other store", 2)
	info := gen.TypesInfo
	want := map[string]string{"SwaggerJSON": "OrigSpec", "FlatSwaggerJSON": "Spec"}
	found := map[string]int{}
	for _, fd := range load.AllFuncs(gen) {
		fd := fd
		check := func(field string, v ast.Expr, pos token.Pos) {
			found[field]++
			ok, why := false, "value is not generateReadableSpec(<json of the document>)"
			if call, isCall := ast.Unparen(v).(*ast.CallExpr); isCall && len(call.Args) == 1 {
				if fn := goan.Callee(info, call); fn != nil && fn.Name() == "generateReadableSpec" {
					// argument: local assigned from json.MarshalIndent(a.SpecDoc.<X>(), …)
					var src ast.Expr = call.Args[0]
					if id, isId := ast.Unparen(src).(*ast.Ident); isId {
						if vv, isVar := info.Uses[id].(*types.Var); isVar {
							as := goan.AssignmentsTo(info, fd.Body, vv)
							if len(as) == 1 && as[0].Rhs != nil {
								src = as[0].Rhs
							}
						}
					}
					if mc, isMC := ast.Unparen(src).(*ast.CallExpr); isMC && len(mc.Args) >= 1 {
						if mf := goan.Callee(info, mc); mf != nil && (goan.CalleeName(mf) == "encoding/json.MarshalIndent" || goan.CalleeName(mf) == "encoding/json.Marshal") {
							// where the marshalled value comes from: SpecDoc.<X>() itself, or a local that only ever
							// received SpecDoc.<X>() or a value decoded from SpecDoc.Raw() (the raw input, for the original)
							srcs := documentSources(info, fd, mc.Args[0], 0)
							accepted := map[string]bool{want[field]: true}
							if field == "SwaggerJSON" {
								accepted["Raw"] = true
							}
							if field == "SwaggerJSON" {
								fromRaw := false
								for _, sname := range srcs {
									if sname == "Raw" {
										fromRaw = true
									}
								}
								c.Check(fromRaw, rule, fmt.Sprintf("generator.%s › the original document is decoded from the raw input", load.FuncName(fd)), c.posOf(gen, pos), "json.Unmarshal(SpecDoc.Raw(), …)",
									"the embedded original document is marshalled from SpecDoc.OrigSpec() alone: that copy is a gob clone of the loaded document, and gob leaves out pointers to zero values — `minimum: 0`, `maximum: 0`, `minLength: 0`, `minItems: 0` of the input are missing from SwaggerJSON (and from the /swagger.json the server answers)")
							}
							ok = len(srcs) > 0
							for _, sname := range srcs {
								if !accepted[sname] {
									ok = false
									why = fmt.Sprintf("%s is built from SpecDoc.%s(), expected SpecDoc.%s()", field, sname, want[field])
								}
							}
						}
					}
				}
			}
			c.Check(ok, rule, fmt.Sprintf("generator.%s › GenApp.%s", load.FuncName(fd), field), c.posOf(gen, pos), "escape(json("+want[field]+"()))", why)
		}
		ast.Inspect(fd.Body, func(n ast.Node) bool {
			switch x := n.(type) {
			case *ast.CompositeLit:
				if goan.NamedName(info.TypeOf(x)) == "GenApp" {
					for f := range want {
						if v := goan.Field(x, f); v != nil {
							check(f, v, v.Pos())
						}
					}
				}
			case *ast.AssignStmt:
				for i, l := range x.Lhs {
					if se, ok := ast.Unparen(l).(*ast.SelectorExpr); ok {
						if _, tracked := want[se.Sel.Name]; tracked {
							if sel, ok := info.Selections[se]; ok && goan.NamedName(sel.Recv()) == "GenApp" && i < len(x.Rhs) {
								check(se.Sel.Name, x.Rhs[i], x.Pos())
							}
						}
					}
				}
			}
			return true
		})
	}
	for f := range want {
		if found[f] != 1 {
			c.Bad(rule, "generator › stores to GenApp."+f, "", fmt.Sprintf("expected exactly one store, found %d", found[f]))
		}
	}

}

// checkRenderedBeforePlanning: planning models and operations writes into the loaded document
// (definitions for anonymous types — makeNewStruct — and the in-place removal of validations
// that do not fit the type — guardValidations → SetValidations). The documents that get
// embedded must therefore be rendered before the first call of makeCodegenApp that reaches
// such a writer through the package's static call graph.
// documentWriterReach: reach(f) names a function storing into the loaded document's Definitions (or
// calling SetValidations on a spec value) that f reaches through static calls inside the generator package
// ("" when it reaches none). The second result is the number of writer functions found.
func documentWriterReach(gen *packages.Package, withSetValidations bool) (func(f *types.Func, seen map[*types.Func]bool) string, int) {
	info := gen.TypesInfo
	decls := map[*types.Func]*ast.FuncDecl{}
	for _, d := range load.AllFuncs(gen) {
		if f, ok := info.Defs[d.Name].(*types.Func); ok {
			decls[f] = d
		}
	}
	isSpecType := func(t types.Type) bool {
		for {
			if p, ok := t.(*types.Pointer); ok {
				t = p.Elem()
				continue
			}
			break
		}
		return strings.HasPrefix(goan.NamedPath(t), "github.com/go-openapi/spec.")
	}
	writes := func(d *ast.FuncDecl) string {
		why := ""
		ast.Inspect(d.Body, func(n ast.Node) bool {
			switch x := n.(type) {
			case *ast.AssignStmt:
				for _, l := range x.Lhs {
					switch lx := l.(type) {
					case *ast.IndexExpr:
						if goan.NamedPath(info.TypeOf(lx.X)) == "github.com/go-openapi/spec.Definitions" {
							why = "stores into " + goan.ExprString(lx.X)
						}
					case *ast.SelectorExpr:
						if lx.Sel.Name == "Definitions" && isSpecType(info.TypeOf(lx.X)) {
							why = "stores into " + goan.ExprString(lx)
						}
					}
				}
			case *ast.CallExpr:
				if se, ok := x.Fun.(*ast.SelectorExpr); ok && se.Sel.Name == "SetValidations" && withSetValidations {
					why = "calls " + goan.ExprString(se)
				}
			}
			return true
		})
		return why
	}
	seeds := map[*types.Func]string{}
	for f, d := range decls {
		if w := writes(d); w != "" {
			seeds[f] = w
		}
	}
	if len(seeds) < 2 && withSetValidations || len(seeds) < 1 {
		return nil, len(seeds)
	}
	// reach[f] = a seed reachable from f
	memo := map[*types.Func]string{}
	var reach func(f *types.Func, seen map[*types.Func]bool) string
	reach = func(f *types.Func, seen map[*types.Func]bool) string {
		if w, ok := seeds[f]; ok {
			return f.Name() + " (" + w + ")"
		}
		if r, ok := memo[f]; ok {
			return r
		}
		d := decls[f]
		if d == nil || seen[f] {
			return ""
		}
		seen[f] = true
		res := ""
		ast.Inspect(d.Body, func(n ast.Node) bool {
			if res != "" {
				return false
			}
			if call, ok := n.(*ast.CallExpr); ok {
				if cal := goan.Callee(info, call); cal != nil && cal.Pkg() == gen.Types {
					if r := reach(cal, seen); r != "" {
						res = cal.Name() + " → " + r
						if _, isSeed := seeds[cal]; isSeed {
							res = r
						}
					}
				}
			}
			return true
		})
		memo[f] = res
		return res
	}
	return reach, len(seeds)
}

func checkRenderedBeforePlanning(c *Ctx, rule string, gen *packages.Package) {
	c.Rule(rule, "makeCodegenApp marshals Spec() before its first call that reaches (static call graph of the generator package) a function storing into spec.Definitions or calling SetValidations on a spec value", 1)
	info := gen.TypesInfo
	fd := load.FuncDecl(gen, "appGenerator.makeCodegenApp")
	if fd == nil {
		c.Anchor(rule, "generator.appGenerator.makeCodegenApp", "not found")
		return
	}
	reach, nWriters := documentWriterReach(gen, true)
	if reach == nil {
		c.Unk(rule, "writers into the loaded document", "", fmt.Sprintf("%d writer functions found (expected makeNewStruct and guardValidations)", nWriters))
		return
	}
	var firstWriter token.Pos
	firstWhy := ""
	ast.Inspect(fd.Body, func(n ast.Node) bool {
		if call, ok := n.(*ast.CallExpr); ok {
			if cal := goan.Callee(info, call); cal != nil && cal.Pkg() == gen.Types {
				if r := reach(cal, map[*types.Func]bool{}); r != "" && (!firstWriter.IsValid() || call.Pos() < firstWriter) {
					firstWriter, firstWhy = call.Pos(), cal.Name()+" → "+r
				}
			}
		}
		return true
	})
	if !firstWriter.IsValid() {
		c.Unk(rule, "generator.appGenerator.makeCodegenApp › first planning call", c.posOf(gen, fd.Pos()), "no call reaching a writer found")
		return
	}
	for _, doc := range []string{"Spec"} { // OrigSpec() is a separate object that planning never reaches
		var pos token.Pos
		ast.Inspect(fd.Body, func(n ast.Node) bool {
			call, ok := n.(*ast.CallExpr)
			if !ok || len(call.Args) == 0 {
				return true
			}
			if fn := goan.Callee(info, call); fn == nil || !strings.HasPrefix(goan.CalleeName(fn), "encoding/json.Marshal") {
				return true
			}
			if inner, ok := ast.Unparen(call.Args[0]).(*ast.CallExpr); ok && goan.LastSel(inner.Fun) == doc && goan.LastSel(inner.Fun.(*ast.SelectorExpr).X) == "SpecDoc" {
				pos = call.Pos()
			}
			return true
		})
		c.Check(pos.IsValid() && pos < firstWriter, rule, "generator.appGenerator.makeCodegenApp › "+doc+"() is rendered before planning", c.posOf(gen, pos),
			"marshalled before "+c.posOf(gen, firstWriter)+" ("+firstWhy+")",
			fmt.Sprintf("SpecDoc.%s() is marshalled at %s, after the call at %s which reaches %s: what planning writes into the loaded document (definitions of anonymous types replacing user definitions of the same name, validations removed in place) ends up in the embedded document", doc, c.posOf(gen, pos), c.posOf(gen, firstWriter), firstWhy))
	}
}

// checkLoadedDocument: wherever generated code (standard templates and every contributed set)
// builds the document the server serves at /swagger.json, the document handed over first —
// the one Raw() answers — is SwaggerJSON, never the flattened one.
func checkLoadedDocument(c *Ctx, rule string, gen *packages.Package) {
	c.Rule(rule, "in every template set, the first argument of loads.Analyzed / loads.Embedded in generated code is built from SwaggerJSON (the document served as /swagger.json), not from FlatSwaggerJSON", 4)
	sets := []string{""}
	if ents, err := os.ReadDir(filepath.Join(c.RepoDir, "generator", "templates", "contrib")); err == nil {
		for _, e := range ents {
			if e.IsDir() {
				sets = append(sets, e.Name())
			}
		}
	}
	seen := map[string]bool{}
	for _, set := range sets {
		f := c.Forest(gen, set)
		for _, name := range f.Names() {
			t := f.Trees[name]
			if t == nil || t.Tree == nil || t.Tree.Root == nil {
				continue
			}
			// flatten the tree to text, actions replaced by §
			var sb strings.Builder
			var starts []int // offset in sb → template position, by text node
			var poss []parse.Pos
			var walk func(l *parse.ListNode)
			walk = func(l *parse.ListNode) {
				if l == nil {
					return
				}
				for _, nd := range l.Nodes {
					switch x := nd.(type) {
					case *parse.TextNode:
						starts = append(starts, sb.Len())
						poss = append(poss, x.Pos)
						sb.Write(x.Text)
					case *parse.IfNode:
						walk(x.List)
						walk(x.ElseList)
					case *parse.RangeNode:
						walk(x.List)
						walk(x.ElseList)
					case *parse.WithNode:
						walk(x.List)
						walk(x.ElseList)
					default:
						sb.WriteString("§")
					}
				}
			}
			walk(t.Tree.Root)
			txt := sb.String()
			n := 0
			for _, fn := range []string{"loads.Analyzed(", "loads.Embedded("} {
				from := 0
				for {
					i := strings.Index(txt[from:], fn)
					if i < 0 {
						break
					}
					at := from + i
					from = at + len(fn)
					depth, j := 0, from
					for ; j < len(txt); j++ {
						ch := txt[j]
						if ch == '(' {
							depth++
						} else if ch == ')' {
							if depth == 0 {
								break
							}
							depth--
						} else if ch == ',' && depth == 0 {
							break
						}
					}
					first := strings.TrimSpace(txt[from:j])
					n++
					key := fmt.Sprintf("%s › %s#%d", t.Asset, strings.TrimSuffix(fn, "("), n)
					if seen[key] {
						continue
					}
					seen[key] = true
					pos := ""
					for k := len(starts) - 1; k >= 0; k-- {
						if starts[k] <= at {
							pos = t.PosStr(poss[k] + parse.Pos(at-starts[k]))
							break
						}
					}
					ok := strings.Contains(first, "SwaggerJSON") && !strings.Contains(first, "FlatSwaggerJSON")
					c.Check(ok, rule, key, pos, "first argument "+first,
						fmt.Sprintf("the generated code loads its document from (%s): the document a generated server serves at /swagger.json is then the flattened spec (shared parameters and responses expanded, remote $refs rewritten), not the spec the code was generated from", first))
				}
			}
		}
	}
}

// checkSpecLocation: relative `$ref`s of the input are resolved against the directory of the
// path the user gave (FlattenOpts.BasePath = GenOpts.Spec). The path may be made absolute —
// filepath.Abs is lexical — but not exchanged for another location of the same file (the
// target of a symbolic link, a copy): sibling documents would be looked for next to that
// other location, and the flattened document embedded in the server describes their schemas.
func checkSpecLocation(c *Ctx, rule string, gen *packages.Package) {
	c.Rule(rule, "GenOpts.Spec is only ever replaced by findSwaggerSpec / filepath.Abs of itself (the location relative $refs are resolved against stays the one the user named)", 1)
	info := gen.TypesInfo
	allowed := map[string]bool{"path/filepath.Abs": true, "findSwaggerSpec": true}
	n := 0
	for _, fd := range load.AllFuncs(gen) {
		if fd.Body == nil {
			continue
		}
		fd := fd
		ast.Inspect(fd.Body, func(m ast.Node) bool {
			as, ok := m.(*ast.AssignStmt)
			if !ok {
				return true
			}
			for i, l := range as.Lhs {
				se, ok := ast.Unparen(l).(*ast.SelectorExpr)
				if !ok || se.Sel.Name != "Spec" {
					continue
				}
				if sel, ok := info.Selections[se]; !ok || (goan.NamedName(sel.Recv()) != "GenOpts" && goan.NamedName(sel.Recv()) != "GenOptsCommon") {
					continue
				}
				var rhs ast.Expr
				if len(as.Rhs) == len(as.Lhs) {
					rhs = as.Rhs[i]
				} else if len(as.Rhs) == 1 {
					rhs = as.Rhs[0]
				}
				if rhs == nil {
					continue
				}
				n++
				// callees that produce the value, through local variables
				var foreign []string
				seen := map[types.Object]bool{}
				var walk func(e ast.Expr, depth int)
				walk = func(e ast.Expr, depth int) {
					ast.Inspect(e, func(k ast.Node) bool {
						switch x := k.(type) {
						case *ast.CallExpr:
							if fn := goan.Callee(info, x); fn != nil {
								name := goan.CalleeName(fn)
								if fn.Pkg() == gen.Types {
									name = fn.Name()
								}
								if !allowed[name] {
									foreign = append(foreign, name)
								}
							}
						case *ast.Ident:
							v, _ := info.Uses[x].(*types.Var)
							if v == nil || v.IsField() || seen[v] || depth > 3 || v.Parent() == gen.Types.Scope() {
								return true
							}
							seen[v] = true
							for _, a := range goan.AssignmentsTo(info, fd.Body, v) {
								if a.Rhs != nil && a.Rhs.Pos() < as.Pos() {
									walk(a.Rhs, depth+1)
								}
							}
						}
						return true
					})
				}
				walk(rhs, 0)
				sort.Strings(foreign)
				c.Check(len(foreign) == 0, rule, "generator."+load.FuncName(fd)+" › store to GenOpts.Spec", c.posOf(gen, as.Pos()), "made of findSwaggerSpec / filepath.Abs of the path given",
					fmt.Sprintf("GenOpts.Spec is replaced by a value that comes from %v: the spec is then loaded from, and its relative $refs resolved against, another location than the one the user named (for a spec reached through a symbolic link, the directory of the link's target) — the flattened document embedded in the server bundles the sibling files of that other directory", foreign))
			}
			return true
		})
	}
	if n == 0 {
		c.Anchor(rule, "generator › store to GenOpts.Spec", "not found")
	}
}

// documentSources: the SpecDoc accessors an expression's value comes from — the accessor called
// directly, or, for a local variable, those of every value assigned to it and of every
// json.Unmarshal(SpecDoc.<X>(), v) that fills it. "?" stands for anything else.
func documentSources(info *types.Info, fd *ast.FuncDecl, e ast.Expr, depth int) []string {
	e = ast.Unparen(e)
	if un, ok := e.(*ast.UnaryExpr); ok && un.Op == token.AND {
		e = ast.Unparen(un.X)
	}
	switch x := e.(type) {
	case *ast.CallExpr:
		if se, ok := x.Fun.(*ast.SelectorExpr); ok && goan.LastSel(se.X) == "SpecDoc" && len(x.Args) == 0 {
			return []string{se.Sel.Name}
		}
		if goan.IsIdent(x.Fun, "new") {
			return nil // an empty value: what fills it is found through json.Unmarshal below
		}
		return []string{"?"}
	case *ast.Ident:
		v, _ := info.Uses[x].(*types.Var)
		if v == nil {
			v, _ = info.Defs[x].(*types.Var)
		}
		if v == nil || depth > 3 {
			return []string{"?"}
		}
		var out []string
		for _, a := range goan.AssignmentsTo(info, fd.Body, v) {
			if a.Rhs == nil || a.ResultIx >= 0 {
				out = append(out, "?")
				continue
			}
			out = append(out, documentSources(info, fd, a.Rhs, depth+1)...)
		}
		// filled by json.Unmarshal(<source>, v) / json.Unmarshal(<source>, &v)
		ast.Inspect(fd.Body, func(n ast.Node) bool {
			call, ok := n.(*ast.CallExpr)
			if !ok || len(call.Args) != 2 {
				return true
			}
			fn := goan.Callee(info, call)
			if fn == nil || goan.CalleeName(fn) != "encoding/json.Unmarshal" {
				return true
			}
			tgt := ast.Unparen(call.Args[1])
			if un, ok := tgt.(*ast.UnaryExpr); ok && un.Op == token.AND {
				tgt = ast.Unparen(un.X)
			}
			if id, ok := tgt.(*ast.Ident); ok && (info.Uses[id] == v) {
				out = append(out, documentSources(info, fd, call.Args[0], depth+1)...)
			}
			return true
		})
		if len(out) == 0 {
			out = []string{"?"}
		}
		return out
	}
	return []string{"?"}
}
