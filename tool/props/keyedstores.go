package props

import (
	"fmt"
	"go/ast"
	"go/token"
	"go/types"

	"golang.org/x/tools/go/packages"

	"verif/tool/goan"
	"verif/tool/load"
)

// Reviewed maps whose key is deliberately not a field of the element (function › element type).
var keyedStoresReviewed = map[string]string{
	"generator.discriminatorInfo › discor":                                "keyed by the $ref of the definition the element describes: one definition of the spec, one element",
	"generator.discriminatorInfo › discee":                                "keyed by the $ref of the definition the element describes: one definition of the spec, one element",
	"generator.paramMappings › struct{id string; in string; name string}": "keyed by the lower-cased Go name being claimed; the element remembers who claimed it (C07.R1.symmetric-rename)",
}

// checkKeyedStores: a map that collects one element per key keeps what it is meant to keep
// apart only if the key is part of the element: `m[k] = T{…}` with k not among the values
// the literal is built from lets two elements that differ in every field share a slot, or two
// slots hold elements that are the same thing (the same Go name, the same file).
func checkKeyedStores(c *Ctx, rule string, pk *packages.Package, floor int) {
	c.Rule(rule, "a struct literal stored into a map under a key carries that key in one of its fields (`m[k] = T{F: k, …}`): the map tells elements apart by what they are", floor)
	info := pk.TypesInfo
	for _, fd := range load.AllFuncs(pk) {
		if fd.Body == nil {
			continue
		}
		ord := map[string]int{}
		ast.Inspect(fd.Body, func(n ast.Node) bool {
			as, ok := n.(*ast.AssignStmt)
			if !ok || len(as.Lhs) != 1 || len(as.Rhs) != 1 || as.Tok != token.ASSIGN {
				return true
			}
			ix, ok := ast.Unparen(as.Lhs[0]).(*ast.IndexExpr)
			if !ok {
				return true
			}
			mt := info.TypeOf(ix.X)
			if mt == nil {
				return true
			}
			if _, isMap := mt.Underlying().(*types.Map); !isMap {
				return true
			}
			rhs := goan.ResolveLocal(info, fd.Body, as.Rhs[0])
			if ue, ok := ast.Unparen(rhs).(*ast.UnaryExpr); ok && ue.Op == token.AND {
				rhs = ue.X
			}
			lit, ok := ast.Unparen(rhs).(*ast.CompositeLit)
			if !ok {
				return true
			}
			if _, isStruct := info.TypeOf(lit).Underlying().(*types.Struct); !isStruct {
				return true
			}
			// values the literal is built from (nested literals included)
			vals := map[string]bool{}
			var collect func(l *ast.CompositeLit)
			collect = func(l *ast.CompositeLit) {
				for _, el := range l.Elts {
					v := el
					if kv, ok := el.(*ast.KeyValueExpr); ok {
						v = kv.Value
					}
					switch x := ast.Unparen(v).(type) {
					case *ast.CompositeLit:
						collect(x)
					case *ast.UnaryExpr:
						if cl, ok := ast.Unparen(x.X).(*ast.CompositeLit); ok && x.Op == token.AND {
							collect(cl)
						}
					}
					vals[goan.ExprString(v)] = true
					vals[goan.ExprString(goan.ResolveLocal(info, fd.Body, v))] = true
				}
			}
			collect(lit)
			if len(vals) == 0 {
				return true
			}
			key := goan.ExprString(ix.Index)
			keyDef := goan.ExprString(goan.ResolveLocal(info, fd.Body, ix.Index))
			tname := types.TypeString(info.TypeOf(lit), func(*types.Package) string { return "" })
			base := fmt.Sprintf("%s.%s › map of %s keyed by a field of the element", pk.Name, load.FuncName(fd), tname)
			ord[base]++
			k := base
			if ord[base] > 1 {
				k = fmt.Sprintf("%s #%d", base, ord[base])
			}
			ok = vals[key] || vals[keyDef]
			if !ok {
				// a constant key equal to a constant field value
				if kv := goan.ConstVal(info, ix.Index); kv != nil {
					for _, el := range lit.Elts {
						if kvx, isKV := el.(*ast.KeyValueExpr); isKV {
							if fv := goan.ConstVal(info, kvx.Value); fv != nil && fv.ExactString() == kv.ExactString() {
								ok = true
							}
						}
					}
				}
			}
			if why, reviewed := keyedStoresReviewed[fmt.Sprintf("%s.%s › %s", pk.Name, load.FuncName(fd), tname)]; reviewed && !ok {
				c.Ok(rule, k, c.posOf(pk, as.Pos()), "reviewed: "+why)
				return true
			}
			c.Check(ok, rule, k, c.posOf(pk, as.Pos()), "key "+key+" is a value of the literal",
				fmt.Sprintf("%s stores a %s under the key %s, which is none of the values the element is built from: two elements that are the same thing (same name) can sit under two keys, or different ones share a key", load.FuncName(fd), tname, key))
			return true
		})
	}
}
