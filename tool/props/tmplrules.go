package props

import (
	"fmt"
	"go/ast"
	"go/token"
	"go/types"
	"regexp"
	"sort"
	"strings"

	"golang.org/x/tools/go/packages"

	"verif/tool/goan"
	"verif/tool/load"
	"verif/tool/tmpl"
)

// guardAtom: a field that the guard stack of an emission must test with a polarity.
type guardAtom struct {
	Field string
	Pol   int // +1 tested positively, -1 negatively, 0 mentioned
}

// emitRule: every occurrence of Rx in the named trees must sit under the guards listed;
// Args lists fields one of the call's argument placeholders must mention (when Rx ends with
// an opening parenthesis); Min is the least number of occurrences (a rule that matches
// nothing fails).
type emitRule struct {
	Name  string
	Trees []string // template names (defines or assets); empty = every tree
	Rx    string
	Need  []guardAtom
	Args  []string
	// Forbid lists fields no enclosing guard may mention (the emission must not depend on them)
	Forbid []string
	Range  string // when set, the emission must be inside a `range` whose pipeline mentions this
	Min    int
	Why    string
}

func atomStr(as []guardAtom) string {
	var s []string
	for _, a := range as {
		p := ""
		switch {
		case a.Pol > 0:
			p = "+"
		case a.Pol < 0:
			p = "¬"
		}
		s = append(s, p+"."+a.Field)
	}
	return strings.Join(s, " ")
}

func linearOf(c *Ctx, ev *tmpl.Evaluator, name string) *tmpl.Linear {
	if c.linears == nil {
		c.linears = map[string]*tmpl.Linear{}
	}
	if l, ok := c.linears[name]; ok {
		return l
	}
	t := ev.F.Trees[name]
	if t == nil {
		return nil
	}
	l := tmpl.Linearise(t)
	c.linears[name] = l
	return l
}

// localNames are identifiers that are local to the generated code (variables, parameters,
// receivers): renaming one leaves behaviour unchanged, so the emission patterns must not depend
// on them. loosen rewrites every whole-word occurrence outside ⟦…⟧ placeholders to \w+.
var localNames = []string{"hasKey", "rawData", "raw", "res", "formats", "route", "body", "size", "file", "rw", "payload", "producer", "consumer", "response",
	"rcv", "stage1", "stage2", "rawProps", "props", "additional", "result", "buf", "data", "toadd", "_parts", "b1", "b2", "b3", "getType", "uprinc", "aCtx", "principal",
	"Params", "name", "scheme", "unregistered", "um", "method", "path", "username", "password", "token", "scopes", "v", "b", "r", "a"}

var localRx = func() *regexp.Regexp {
	var alts []string
	for _, n := range localNames {
		alts = append(alts, regexp.QuoteMeta(n))
	}
	return regexp.MustCompile(`(^|[^\\.\w$])(` + strings.Join(alts, "|") + `)\b`)
}()

func loosen(rx string) string {
	var out strings.Builder
	for len(rx) > 0 {
		i := strings.Index(rx, "⟦")
		seg := rx
		if i >= 0 {
			seg = rx[:i]
		}
		// twice: adjacent matches share their separator
		seg = localRx.ReplaceAllString(seg, `${1}\w+`)
		seg = localRx.ReplaceAllString(seg, `${1}\w+`)
		out.WriteString(seg)
		if i < 0 {
			break
		}
		j := strings.Index(rx[i:], "⟧")
		if j < 0 {
			out.WriteString(rx[i:])
			break
		}
		out.WriteString(rx[i : i+j+len("⟧")])
		rx = rx[i+j+len("⟧"):]
	}
	return out.String()
}

// checkEmitRules applies a table of emission rules.
func checkEmitRules(c *Ctx, rule string, ev *tmpl.Evaluator, table []emitRule) {
	for _, er := range table {
		rx := regexp.MustCompile(loosen(er.Rx))
		trees := er.Trees
		if len(trees) == 0 {
			trees = ev.F.Names()
		}
		n := 0
		for _, tn := range trees {
			l := linearOf(c, ev, tn)
			if l == nil {
				c.Anchor(rule, "template "+tn, "template not found")
				continue
			}
			k := 0
			for _, oc := range l.Find(rx) {
				n++
				k++
				var missing []string
				for _, a := range er.Need {
					if !tmpl.GuardHas(oc.Guards, a.Field, a.Pol) {
						missing = append(missing, atomStr([]guardAtom{a}))
					}
				}
				for _, f := range er.Forbid {
					if tmpl.GuardHas(oc.Guards, f, 0) {
						missing = append(missing, "independence from ."+f)
					}
				}
				if er.Range != "" && !rangeGuard(oc.Guards, er.Range) {
					missing = append(missing, "range "+er.Range)
				}
				if len(er.Args) > 0 {
					args := l.CallArgs(oc.End - 1)
					have := map[string]bool{}
					for _, ph := range tmpl.Placeholders(args) {
						for _, f := range tmpl.FieldsIn(ph) {
							have[f] = true
						}
					}
					for _, a := range er.Args {
						if !have[a] {
							missing = append(missing, "argument ."+a)
						}
					}
				}
				c.Check(len(missing) == 0, rule, fmt.Sprintf("%s › %s › %s #%d", l.Tree.Asset, tn, er.Name, k), l.Tree.PosStr(oc.Pos),
					"under "+atomStr(er.Need)+" "+strings.Join(er.Args, ","),
					fmt.Sprintf("%s: missing %v (guards: %s). %s", er.Name, missing, tmpl.GuardString(oc.Guards), er.Why))
			}
		}
		if n < er.Min {
			c.Bad(rule, fmt.Sprintf("%s › present", er.Name), "", fmt.Sprintf("found %d emission(s) of /%s/ in %v, expected at least %d. %s", n, er.Rx, er.Trees, er.Min, er.Why))
		}
	}
}

// checkOrder: in the linear text of a tree, the first match of each pattern occurs, in the
// order given; reports the first pattern out of order or absent.
func checkOrder(c *Ctx, rule, key string, l *tmpl.Linear, why string, pats ...string) {
	last := -1
	for i, p := range pats {
		loc := regexp.MustCompile(loosen(p)).FindStringIndex(l.Text)
		if loc == nil {
			c.Bad(rule, key, l.Tree.File, fmt.Sprintf("step %d /%s/ is not emitted. %s", i+1, p, why))
			return
		}
		if loc[0] < last {
			c.Bad(rule, key, l.Tree.PosStr(l.PosAt(loc[0])), fmt.Sprintf("step %d /%s/ is emitted before step %d /%s/. %s", i+1, p, i, pats[i-1], why))
			return
		}
		last = loc[0]
	}
	c.Ok(rule, key, l.Tree.File, fmt.Sprintf("%d steps in order", len(pats)))
}

// checkEnumCasePolarity: the case-sensitivity argument of validate.EnumCase is `false` exactly
// under .IsEnumCI.
func checkEnumCasePolarity(c *Ctx, rule string, ev *tmpl.Evaluator) {
	c.Rule(rule, "the caseSensitive argument of every validate.EnumCase call is false under `if .IsEnumCI` and true otherwise", 10)
	rx := regexp.MustCompile(`validate\.EnumCase\(`)
	for _, tn := range ev.F.Names() {
		l := linearOf(c, ev, tn)
		k := 0
		for _, oc := range l.Find(rx) {
			k++
			args := l.CallArgs(oc.End - 1)
			base := oc.End
			fi := strings.LastIndex(args, "false")
			ti := strings.LastIndex(args, "true")
			ok := fi >= 0 && ti >= 0
			why := "the last argument is not the {{ if .IsEnumCI }}false{{ else }}true{{ end }} selection"
			if ok {
				gf := l.GuardsAt(base + fi)
				gt := l.GuardsAt(base + ti)
				okF := len(gf) > 0 && gf[len(gf)-1].Kind == "if" && strings.TrimSpace(gf[len(gf)-1].Pipe) == ".IsEnumCI"
				okT := len(gt) > 0 && gt[len(gt)-1].Kind == "else" && strings.TrimSpace(gt[len(gt)-1].Pipe) == ".IsEnumCI"
				ok = okF && okT
				why = fmt.Sprintf("`false` is emitted under [%s] and `true` under [%s]: case-insensitive matching is selected for the wrong enums", tmpl.GuardString(gf), tmpl.GuardString(gt))
			}
			c.Check(ok, rule, fmt.Sprintf("%s › %s › validate.EnumCase #%d", l.Tree.Asset, tn, k), l.Tree.PosStr(oc.Pos), "false iff .IsEnumCI", why)
		}
	}
}

// checkExtensionGetters: spec.Extensions.GetBool/GetString/GetStringSlice return (value, ok);
// no call site may discard the value and use ok as if it were the value of a boolean extension.
func checkExtensionGetters(c *Ctx, rule string, gen *packages.Package) {
	c.Rule(rule, "boolean vendor extensions are read by value: hasEnumCI and boolExtension return the asserted bool, and no Extensions.GetBool call discards its first result", 2)
	info := gen.TypesInfo
	for _, fd := range load.AllFuncs(gen) {
		fd := fd
		ast.Inspect(fd.Body, func(n ast.Node) bool {
			as, ok := n.(*ast.AssignStmt)
			if !ok || len(as.Rhs) != 1 || len(as.Lhs) != 2 {
				return true
			}
			call, ok := as.Rhs[0].(*ast.CallExpr)
			if !ok {
				return true
			}
			fn := goan.Callee(info, call)
			if fn == nil || goan.CalleeName(fn) != "spec.Extensions.GetBool" && !strings.HasSuffix(goan.CalleeName(fn), "Extensions.GetBool") {
				return true
			}
			c.Check(!goan.IsIdent(as.Lhs[0], "_"), rule, fmt.Sprintf("generator.%s › %s", load.FuncName(fd), goan.ExprString(call)), c.posOf(gen, as.Pos()), "value result used",
				"the boolean value of the extension is discarded and its presence is used instead: `x-…: false` behaves as true")
			return true
		})
	}
	for _, fname := range []string{"hasEnumCI", "boolExtension"} {
		fd := load.FuncDecl(gen, fname)
		if fd == nil {
			c.Anchor(rule, "generator."+fname, "not found")
			continue
		}
		// variables holding the asserted value: first result of v.(bool) or of GetBool
		vals := map[types.Object]bool{}
		ast.Inspect(fd.Body, func(n ast.Node) bool {
			as, ok := n.(*ast.AssignStmt)
			if !ok || len(as.Rhs) != 1 || len(as.Lhs) < 1 {
				return true
			}
			isVal := false
			switch r := ast.Unparen(as.Rhs[0]).(type) {
			case *ast.TypeAssertExpr:
				if r.Type != nil && goan.ExprString(r.Type) == "bool" {
					isVal = true
				}
			case *ast.CallExpr:
				if fn := goan.Callee(info, r); fn != nil && strings.HasSuffix(goan.CalleeName(fn), "GetBool") {
					isVal = true
				}
			}
			if isVal {
				if id, ok := as.Lhs[0].(*ast.Ident); ok && id.Name != "_" {
					if o := info.Defs[id]; o != nil {
						vals[o] = true
					} else if o := info.Uses[id]; o != nil {
						vals[o] = true
					}
				}
			}
			return true
		})
		dep := false
		n := 0
		ast.Inspect(fd.Body, func(nd ast.Node) bool {
			rs, ok := nd.(*ast.ReturnStmt)
			if !ok || len(rs.Results) != 1 {
				return true
			}
			// returns of a constant (false / nil) are the absent arms
			if tv, ok := info.Types[rs.Results[0]]; ok && (tv.Value != nil || tv.IsNil()) {
				return true
			}
			n++
			for o := range vals {
				if goan.Mentions(info, rs.Results[0], o) {
					dep = true
				}
			}
			return true
		})
		c.Check(dep && n > 0, rule, "generator."+fname+" › returns the asserted value", c.posOf(gen, fd.Pos()), "result depends on v.(bool)", fname+" returns a result that does not depend on the boolean value of the extension (presence taken for value)")
	}
}

// boolean small-model evaluation of Go expressions over opaque atoms
func boolAtoms(e ast.Expr, out map[string]bool) {
	switch x := ast.Unparen(e).(type) {
	case *ast.BinaryExpr:
		if x.Op == token.LAND || x.Op == token.LOR {
			boolAtoms(x.X, out)
			boolAtoms(x.Y, out)
			return
		}
	case *ast.UnaryExpr:
		if x.Op == token.NOT {
			boolAtoms(x.X, out)
			return
		}
	}
	out[goan.ExprString(ast.Unparen(e))] = true
}

func boolEval(e ast.Expr, env map[string]bool) bool {
	switch x := ast.Unparen(e).(type) {
	case *ast.BinaryExpr:
		if x.Op == token.LAND {
			return boolEval(x.X, env) && boolEval(x.Y, env)
		}
		if x.Op == token.LOR {
			return boolEval(x.X, env) || boolEval(x.Y, env)
		}
	case *ast.UnaryExpr:
		if x.Op == token.NOT {
			return !boolEval(x.X, env)
		}
	}
	return env[goan.ExprString(ast.Unparen(e))]
}

func sortedKeys(m map[string]bool) []string {
	var ks []string
	for k := range m {
		ks = append(ks, k)
	}
	sort.Strings(ks)
	return ks
}

// ---- conditionally declared identifiers (C01) ----

var declRxs = []*regexp.Regexp{
	regexp.MustCompile(`(?m)^\s*(?:var )?([A-Za-z_]\w*)(?:,\s*([A-Za-z_]\w*))?(?:,\s*([A-Za-z_]\w*))?\s*:?=(?:\s|⟦)`),
	regexp.MustCompile(`(?m)^\s*var ([A-Za-z_]\w*) `),
}

// checkConditionalDecls: inside one generated function, an identifier whose declarations all
// sit under template conditions may only be used under conditions that imply one of them
// (small-model evaluation over the atoms of the guards involved).
func checkConditionalDecls(c *Ctx, rule string, ev *tmpl.Evaluator, trees []string) {
	n := 0
	for _, tn := range trees {
		l := linearOf(c, ev, tn)
		if l == nil {
			c.Anchor(rule, "template "+tn, "not found")
			continue
		}
		// function segments of the generated file
		bounds := []int{0}
		for _, m := range regexp.MustCompile(`\nfunc `).FindAllStringIndex(l.Text, -1) {
			bounds = append(bounds, m[0])
		}
		bounds = append(bounds, len(l.Text))
		for si := 0; si+1 < len(bounds); si++ {
			lo, hi := bounds[si], bounds[si+1]
			seg := l.Text[lo:hi]
			type occ struct {
				off   int
				cond  *tmpl.Cond
				scope string // the range/with nesting: conditions only compare within one dot
			}
			scopeOf := func(gs []tmpl.Guard) string {
				var sc []string
				for _, g := range gs {
					if g.Kind == "range" || g.Kind == "with" || g.Kind == "else-with" {
						sc = append(sc, g.Kind+" "+g.Pipe)
					}
				}
				return strings.Join(sc, " › ")
			}
			decls := map[string][]occ{}
			for _, rx := range declRxs {
				for _, m := range rx.FindAllStringSubmatchIndex(seg, -1) {
					for g := 1; g*2+1 < len(m); g++ {
						if m[g*2] < 0 {
							continue
						}
						name := seg[m[g*2]:m[g*2+1]]
						if name == "_" || name == "err" {
							continue
						}
						gs := l.GuardsAt(lo + m[g*2])
						decls[name] = append(decls[name], occ{lo + m[g*2], tmpl.StackCond(gs), scopeOf(gs)})
					}
				}
			}
			for name, ds := range decls {
				// only identifiers that are never declared unconditionally
				uncond := false
				atoms := map[string]bool{}
				for _, d := range ds {
					if len(d.cond.Args) == 0 {
						uncond = true
					}
					d.cond.Atoms(atoms)
				}
				if uncond {
					continue
				}
				useRx := regexp.MustCompile(`(^|[^\w.])` + regexp.QuoteMeta(name) + `\b`)
				for _, m := range useRx.FindAllStringIndex(seg, -1) {
					off := lo + m[1] - len(name)
					isDecl := false
					for _, d := range ds {
						if d.off == off {
							isDecl = true
						}
					}
					if isDecl || off < ds[0].off {
						continue
					}
					// skip occurrences inside comments and string literals of the generated code
					lineStart := strings.LastIndexByte(l.Text[:off], '\n') + 1
					prefix := l.Text[lineStart:off]
					if strings.Contains(prefix, "//") || strings.Count(prefix, `"`)%2 == 1 || strings.Count(prefix, "`")%2 == 1 {
						continue
					}
					if scopeOf(l.GuardsAt(off)) != ds[0].scope {
						continue // another dot: the relation between the flags is established in Go, not here
					}
					uc := tmpl.StackCond(l.GuardsAt(off))
					ua := map[string]bool{}
					for a := range atoms {
						ua[a] = true
					}
					uc.Atoms(ua)
					keys := sortedKeys(ua)
					if len(keys) > 14 {
						continue
					}
					bad := ""
					for mask := 0; mask < 1<<len(keys) && bad == ""; mask++ {
						env := map[string]bool{}
						for i, k := range keys {
							env[k] = mask&(1<<i) != 0
						}
						if !uc.Eval(env) {
							continue
						}
						declared := false
						for _, d := range ds {
							// a declaration counts for the uses that follow it in the generated text
							declared = declared || (d.off < off && d.cond.Eval(env))
						}
						if !declared {
							var on []string
							for _, k := range keys {
								if env[k] {
									on = append(on, k)
								}
							}
							bad = strings.Join(on, ", ")
						}
					}
					n++
					c.Check(bad == "", rule, fmt.Sprintf("%s › %s › use of conditionally declared `%s` #%d", l.Tree.Asset, tn, name, n), l.Tree.PosStr(l.PosAt(off)), "use implies a declaration",
						fmt.Sprintf("`%s` is declared only under template conditions, and with {%s} true it is used without any of its declarations being emitted: the generated file does not compile (undefined: %s)", name, bad, name))
				}
			}
		}
	}
	if n == 0 {
		c.Unk(rule, "conditionally declared identifiers", "", "no use of a conditionally declared identifier was found in "+strings.Join(trees, ", ")+" (anchor)")
	}
}

// checkMakeSizes: a make(T, n[, cap]) whose size is a non-constant difference a - b panics when
// b > a; it must be dominated by a comparison of the two operands.
func checkMakeSizes(c *Ctx, rule string, pk *packages.Package) int {
	info := pk.TypesInfo
	n := 0
	for _, fd := range load.AllFuncs(pk) {
		fd := fd
		goan.WalkGuards(info, fd.Body, func(nd ast.Node, guards []goan.Lit, _ []ast.Stmt) {
			ast.Inspect(nd, func(m ast.Node) bool {
				call, ok := m.(*ast.CallExpr)
				if !ok || !goan.IsBuiltinCall(info, call, "make") {
					return true
				}
				for _, a := range call.Args[1:] {
					be, ok := ast.Unparen(a).(*ast.BinaryExpr)
					if !ok || be.Op != token.SUB {
						continue
					}
					if tv, ok := info.Types[a]; ok && tv.Value != nil {
						continue
					}
					n++
					l, r := goan.ExprString(be.X), goan.ExprString(be.Y)
					guarded := false
					for _, g := range guards {
						gs := goan.ExprString(g.E)
						if strings.Contains(gs, l) && strings.Contains(gs, r) {
							guarded = true
						}
					}
					c.Check(guarded, rule, fmt.Sprintf("%s.%s › make size %s", pk.Name, load.FuncName(fd), goan.ExprString(a)), c.posOf(pk, call.Pos()), "dominated by a comparison of the operands",
						fmt.Sprintf("make(…, %s) panics (len/cap out of range) whenever %s exceeds %s, and nothing on the way compares them", goan.ExprString(a), r, l))
				}
				return true
			})
		})
	}
	return n
}

// checkNoopDeletes: slices.Delete(s, i, i) removes the empty range [i, i): nothing.
func checkNoopDeletes(c *Ctx, rule string, pk *packages.Package) {
	info := pk.TypesInfo
	for _, fd := range load.AllFuncs(pk) {
		fd := fd
		ast.Inspect(fd.Body, func(n ast.Node) bool {
			call, ok := n.(*ast.CallExpr)
			if !ok || len(call.Args) != 3 {
				return true
			}
			fn := goan.Callee(info, call)
			if fn == nil || goan.CalleeName(fn) != "slices.Delete" {
				return true
			}
			same := goan.ExprString(call.Args[1]) == goan.ExprString(call.Args[2])
			c.Check(!same, rule, fmt.Sprintf("%s.%s › %s", pk.Name, load.FuncName(fd), goan.ExprString(call)), c.posOf(pk, call.Pos()), "removes a non-empty range",
				"slices.Delete(s, i, i) removes the empty range [i, i): the element that was meant to be dropped stays")
			return true
		})
	}
}

var rxShortDecl = regexp.MustCompile(`(?m)^[ \t]*((?:⟦[^⟧\n]*⟧|[A-Za-z_]\w*)+)[ \t]*:=`)

// checkDeclaredUsed: Go refuses a local that is declared and not used. A local that a template
// declares with `:=` under conditions D, and that no other template mentions, is used under
// conditions whose disjunction D implies (small-model evaluation over the atoms involved):
// a guard narrowed on the use alone (`if gt0 .MinItems` under a declaration that still says
// `if or .MinItems .MaxItems`) leaves the declaration without a use for some schemas.
func checkDeclaredUsed(c *Ctx, rule string, ev *tmpl.Evaluator) {
	c.Rule(rule, "a local declared with := under template conditions, and mentioned by no other template, is used whenever its declaration is emitted", 5)
	lin := map[string]*tmpl.Linear{}
	for _, name := range ev.F.Names() {
		t := ev.F.Trees[name]
		if t == nil || t.Tree == nil || t.Tree.Root == nil || strings.HasPrefix(t.Asset, "contrib/") || strings.Contains(t.File, "/markdown/") {
			continue
		}
		lin[name] = tmpl.Linearise(t)
	}
	scopeOf := func(gs []tmpl.Guard) string {
		var sc []string
		for _, g := range gs {
			if g.Kind == "range" || g.Kind == "with" || g.Kind == "else-with" {
				sc = append(sc, g.Kind+" "+g.Pipe)
			}
		}
		return strings.Join(sc, " › ")
	}
	names := make([]string, 0, len(lin))
	for n := range lin {
		names = append(names, n)
	}
	sort.Strings(names)
	for _, tn := range names {
		l := lin[tn]
		seen := map[string]bool{}
		for _, m := range rxShortDecl.FindAllStringSubmatchIndex(l.Text, -1) {
			name := l.Text[m[2]:m[3]]
			if name == "_" || name == "err" || name == "ok" || seen[name] || !strings.Contains(name, "⟦") {
				continue // plain names are covered by the use ⇒ declaration rule; composed names are the size / index variables
			}
			seen[name] = true
			gs := l.GuardsAt(m[2])
			if len(gs) == 0 {
				continue
			}
			elsewhere := false
			for _, on := range names {
				if on != tn && strings.Contains(lin[on].Text, name) {
					elsewhere = true
				}
			}
			if elsewhere {
				continue
			}
			d := tmpl.StackCond(gs)
			if len(d.Args) == 0 {
				continue
			}
			atoms := map[string]bool{}
			d.Atoms(atoms)
			var uses []*tmpl.Cond
			complete := true
			for off := 0; ; {
				i := strings.Index(l.Text[off:], name)
				if i < 0 {
					break
				}
				at := off + i
				off = at + len(name)
				if at == m[2] {
					continue
				}
				rest := strings.TrimLeft(l.Text[off:], " \t")
				if strings.HasPrefix(rest, ":=") {
					complete = false // declared again: which uses belong to which declaration is not decided here
					continue
				}
				if off < len(l.Text) && (l.Text[off] == '_' || (l.Text[off] >= 'a' && l.Text[off] <= 'z') || (l.Text[off] >= 'A' && l.Text[off] <= 'Z') || (l.Text[off] >= '0' && l.Text[off] <= '9')) {
					continue // a longer name
				}
				ug := l.GuardsAt(at)
				if scopeOf(ug) != scopeOf(gs) {
					complete = false
					continue
				}
				uc := tmpl.StackCond(ug)
				uc.Atoms(atoms)
				uses = append(uses, uc)
			}
			keys := sortedKeys(atoms)
			if !complete || len(keys) > 14 {
				continue
			}
			bad := ""
			for mask := 0; mask < 1<<len(keys) && bad == ""; mask++ {
				env := map[string]bool{}
				for i, k := range keys {
					env[k] = mask&(1<<i) != 0
				}
				if !d.Eval(env) {
					continue
				}
				used := false
				for _, u := range uses {
					used = used || u.Eval(env)
				}
				if !used {
					var on []string
					for _, k := range keys {
						if env[k] {
							on = append(on, k)
						}
					}
					bad = strings.Join(on, ", ")
				}
			}
			c.Check(bad == "", rule, fmt.Sprintf("%s › %s › `%s` is used whenever it is declared", l.Tree.Asset, tn, strings.NewReplacer("⟦", "{{", "⟧", "}}").Replace(name)), l.Tree.PosStr(l.PosAt(m[2])), "declaration implies a use",
				fmt.Sprintf("the local is declared under template conditions, and with only {%s} true the declaration is emitted while none of its uses is: the generated file does not compile (declared and not used)", bad))
		}
	}
}
