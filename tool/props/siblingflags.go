package props

import (
	"fmt"
	"go/ast"
	"go/token"
	"go/types"
	"sort"
	"strings"

	"golang.org/x/tools/go/packages"

	"verif/tool/goan"
	"verif/tool/load"
)

// checkSiblingFlagDefinitions: a flag of the view model that several builders compute from the
// other fields of the same object (`x.NeedsIndex = x.HasValidations || x.Converter != "" || …`)
// is computed from the same fields everywhere: the templates that read it do not know which
// builder made the object. A disjunct dropped at one site ("HasValidations covers it") leaves
// that builder's objects without the flag where the others have it — here the loop variable the
// binder of a custom-formatted item refers to is not declared, and the server does not build.
func checkSiblingFlagDefinitions(c *Ctx, rule string, pk *packages.Package, typeName, field string, floor int) {
	c.Rule(rule, fmt.Sprintf("every assignment of %s.%s from the fields of the object itself uses the same disjuncts (sibling agreement)", typeName, field), floor)
	info := pk.TypesInfo
	type site struct {
		fn    string
		pos   token.Pos
		parts map[string]bool
	}
	var sites []site
	union := map[string]bool{}
	for _, fd := range load.AllFuncs(pk) {
		if fd.Body == nil {
			continue
		}
		fd := fd
		ast.Inspect(fd.Body, func(n ast.Node) bool {
			as, ok := n.(*ast.AssignStmt)
			if !ok {
				return true
			}
			for i, l := range as.Lhs {
				se, ok := ast.Unparen(l).(*ast.SelectorExpr)
				if !ok || se.Sel.Name != field || i >= len(as.Rhs) {
					continue
				}
				if sel, ok := info.Selections[se]; !ok || goan.NamedName(sel.Recv()) != typeName {
					continue
				}
				recv, ok := ast.Unparen(se.X).(*ast.Ident)
				if !ok {
					continue
				}
				ro := info.Uses[recv]
				parts := map[string]bool{}
				var split func(e ast.Expr)
				split = func(e ast.Expr) {
					if be, ok := ast.Unparen(e).(*ast.BinaryExpr); ok && be.Op == token.LOR {
						split(be.X)
						split(be.Y)
						return
					}
					// own-field disjunct: mentions the receiver object and nothing else that is a variable
					own, other := false, false
					ast.Inspect(e, func(m ast.Node) bool {
						if id, ok := m.(*ast.Ident); ok {
							if o, isVar := info.Uses[id].(*types.Var); isVar && !o.IsField() {
								if o == ro {
									own = true
								} else {
									other = true
								}
							}
						}
						return true
					})
					if own && !other {
						txt := goan.ExprString(ast.Unparen(e))
						txt = strings.ReplaceAll(txt, recv.Name+".", "‹x›.")
						if txt != "‹x›."+field {
							parts[txt] = true
						}
					}
				}
				split(as.Rhs[i])
				if len(parts) >= 2 {
					sites = append(sites, site{load.FuncName(fd), as.Pos(), parts})
					for p := range parts {
						union[p] = true
					}
				}
			}
			return true
		})
	}
	ord := map[string]int{}
	for _, s := range sites {
		var missing []string
		for p := range union {
			if !s.parts[p] {
				missing = append(missing, p)
			}
		}
		sort.Strings(missing)
		ord[s.fn]++
		c.Check(len(missing) == 0, rule, fmt.Sprintf("%s.%s › %s.%s #%d", pk.Name, s.fn, typeName, field, ord[s.fn]), c.posOf(pk, s.pos), "same disjuncts as the sibling definitions",
			fmt.Sprintf("this definition of %s lacks %s, which the other builders use: an object built here does not carry the flag in a case where the templates rely on it (for NeedsIndex: `for _, v := range` while the item binder refers to the index — `undefined: i` in the generated server)", field, strings.Join(missing, ", ")))
	}
}
