package props

import (
	"fmt"
	"strings"
	"text/template/parse"

	"verif/tool/tmpl"
)

// checkFormatGuards: how the items of an array parameter are laid out on the wire is decided by
// its collectionFormat and nothing else — Swagger allows `multi` in query and in formData, and
// the other formats everywhere. A template condition that picks a (de)serialisation strategy
// from the collection format must not also test where the parameter lives: the location it
// leaves out gets the strategy of another format.
func checkFormatGuards(c *Ctx, rule string, ev *tmpl.Evaluator, floor int) {
	c.Rule(rule, "a template condition that tests .CollectionFormat tests nothing about the parameter's location", floor)
	if c.Contrib != "" {
		return
	}
	locFlags := []string{".IsQueryParam", ".IsFormParam", ".IsHeaderParam", ".IsPathParam", ".IsBodyParam", ".IsFileParam", ".Location"}
	n := 0
	for _, name := range ev.F.Names() {
		t := ev.F.Trees[name]
		if t == nil || t.Tree == nil || t.Tree.Root == nil || strings.HasPrefix(t.Asset, "contrib/") {
			continue
		}
		ord := 0
		var walk func(l *parse.ListNode)
		visit := func(pipe *parse.PipeNode, pos parse.Pos) {
			if pipe == nil {
				return
			}
			s := pipe.String()
			if !strings.Contains(s, ".CollectionFormat") {
				return
			}
			ord++
			n++
			var bad []string
			for _, f := range locFlags {
				if strings.Contains(s, f) {
					bad = append(bad, f)
				}
			}
			c.Check(len(bad) == 0, rule, fmt.Sprintf("%s › %s › collection format test #%d", t.Asset, name, ord), t.PosStr(pos), "tests the format alone: "+s,
				fmt.Sprintf("the condition `%s` picks the handling of a collection format only for some locations (%v): an array parameter of that format in another location (`multi` is valid in query and in formData) is split or joined as if it had another format, and its values are lost or rejected", s, bad))
		}
		walk = func(l *parse.ListNode) {
			if l == nil {
				return
			}
			for _, nd := range l.Nodes {
				switch x := nd.(type) {
				case *parse.IfNode:
					visit(x.Pipe, x.Pos)
					walk(x.List)
					walk(x.ElseList)
				case *parse.RangeNode:
					walk(x.List)
					walk(x.ElseList)
				case *parse.WithNode:
					walk(x.List)
					walk(x.ElseList)
				}
			}
		}
		walk(t.Tree.Root)
	}
	c.Analysed("template conditions on .CollectionFormat", n)
}
