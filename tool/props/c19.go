package props

import (
	"fmt"
	"go/ast"
	"go/token"
	"go/types"
	"sort"
	"strings"

	"golang.org/x/tools/go/packages"

	"verif/tool/goan"
	"verif/tool/load"
)

func init() { register("C19", checkC19) }

func isMarshaller(name string) bool {
	switch name {
	case "encoding/json.Marshal", "encoding/json.MarshalIndent", "gopkg.in/yaml.v3.Marshal", "gopkg.in/yaml.v2.Marshal",
		"github.com/go-openapi/swag.JSONMapSlice.MarshalYAML", "github.com/go-openapi/swag.BytesToYAMLDoc":
		return true
	}
	return false
}

func checkC19(c *Ctx) {
	c.Explain("JSON and YAML renderings are interchangeable: (R1) YAML is only ever produced from the JSON form — no yaml marshaller is applied to a go-openapi/spec value, and the generic value handed to it is decoded from JSON bytes with a decoder that keeps integers exact (yaml.Unmarshal / swag.JSONMapSlice / swag.ToDynamicJSON), never with encoding/json into interface{}; (R2) the bytes a marshaller returns reach the output verbatim (written, printed or returned — never passed through another function or re-assigned); (R3) flatten, expand and mixin share one writer and pass the user's --format; every switch on the format covers the flag's `choice:` values; compact/pretty affects the JSON arm only. " +
		"Decides how the two renderings are produced, not scalar fidelity inside yaml.v2/v3 and swag.JSONMapSlice.")
	c.Assume("gopkg.in/yaml.v3 and swag.JSONMapSlice render every JSON scalar so that it reloads equal (the property's residual, in the dependencies)")
	prog := c.Prog("./cmd/swagger/commands/...")
	var pkgs []*packages.Package
	var paths []string
	for path := range prog.ByPath {
		if strings.HasPrefix(path, load.PkgCommands) && !strings.Contains(path, "internal/") && !strings.HasSuffix(path, "/diff") {
			paths = append(paths, path)
		}
	}
	sort.Strings(paths)
	for _, p := range paths {
		if len(prog.ByPath[p].Syntax) > 0 {
			pkgs = append(pkgs, prog.ByPath[p])
		}
	}

	c.Rule("C19.R1.yaml-from-json", "no YAML marshaller is applied to a spec-typed value; generic values for YAML come from JSON bytes through an integer-exact decoder", 3)
	c.Rule("C19.R2.verbatim", "bytes returned by a JSON/YAML marshaller are only written, printed, returned or decoded as the intermediate form — never transformed", 4)
	c.Rule("C19.R2.document-settled", "in every function that renders a document, nothing is stored into a value of the spec package after the first marshalling call: both formats render the same document", 2)
	nYAML := 0
	for _, pk := range pkgs {
		info := pk.TypesInfo
		for _, fd := range load.AllFuncs(pk) {
			fd := fd
			ast.Inspect(fd.Body, func(n ast.Node) bool {
				call, ok := n.(*ast.CallExpr)
				if !ok {
					return true
				}
				fn := goan.Callee(info, call)
				if fn == nil {
					return true
				}
				name := goan.CalleeName(fn)
				// R1a: yaml.Marshal(x) with x spec-typed
				if strings.HasSuffix(name, "yaml.v3.Marshal") || strings.HasSuffix(name, "yaml.v2.Marshal") {
					nYAML++
					t := info.TypeOf(call.Args[0])
					bad := strings.Contains(goan.NamedPath(t), "go-openapi/spec.")
					c.Check(!bad, "C19.R1.yaml-from-json", fmt.Sprintf("%s.%s › yaml.Marshal(%s)", pk.Name, load.FuncName(fd), goan.ExprString(call.Args[0])), c.posOf(pk, call.Pos()),
						"argument is a generic value, not a spec struct", "a go-openapi/spec value is marshalled to YAML directly: struct tags and custom JSON marshallers (extensions, refs) are bypassed, the YAML differs from the JSON rendering")
					// source of the generic value
					checkGenericSource(c, pk, fd, call.Args[0], call.Pos())
				}
				if strings.HasSuffix(name, "JSONMapSlice.MarshalYAML") {
					nYAML++
					if se, ok := call.Fun.(*ast.SelectorExpr); ok {
						checkGenericSource(c, pk, fd, se.X, call.Pos())
					}
				}
				// R1b: json.Unmarshal into interface{} / map[string]interface{} on the rendering path
				if name == "encoding/json.Unmarshal" && len(call.Args) == 2 {
					if pt, ok := info.TypeOf(call.Args[1]).(*types.Pointer); ok {
						if it, ok := pt.Elem().Underlying().(*types.Interface); ok && it.NumMethods() == 0 && rendersSpec(info, fd) {
							c.Bad("C19.R1.yaml-from-json", fmt.Sprintf("%s.%s › json.Unmarshal into interface{}", pk.Name, load.FuncName(fd)), c.posOf(pk, call.Pos()),
								"the intermediate JSON is decoded with encoding/json into interface{}: numbers become float64 and integers above 2^53 are rounded in the YAML rendering only")
						}
					}
				}
				return true
			})
			if rendersSpec(info, fd) || (pk.Name == "initcmd" && load.FuncName(fd) == "Spec.Execute") {
				checkVerbatim(c, pk, fd)
				checkDocumentSettled(c, "C19.R2.document-settled", pk, fd)
			}
		}
	}
	if nYAML < 3 {
		c.Unk("C19.R1.yaml-from-json", "YAML marshalling sites", "", fmt.Sprintf("found %d sites, expected ≥ 3 (writeToFile, marshalToYAMLFormat, init spec)", nYAML))
	}
	checkFormatSwitches(c, pkgs)
	// a rendering written over an existing longer file of the other run must not keep its tail:
	// the document would reload differently (or not at all) in one format only
	c.Rule("C19.R2.output-files", "every output file of the spec-writing commands is created truncated: os.Create, or os.OpenFile with O_TRUNC whenever it has O_CREATE (outside append/exclusive mode)", 3)
	for _, pk := range pkgs {
		ord := map[string]int{}
		for _, cs := range goan.FindCalls([]*packages.Package{pk}, func(n string) bool { return n == "os.Create" || n == "os.WriteFile" }) {
			k := fmt.Sprintf("%s.%s › %s", pk.Name, cs.FnName, cs.Callee)
			ord[k]++
			if ord[k] > 1 {
				k = fmt.Sprintf("%s #%d", k, ord[k])
			}
			c.Ok("C19.R2.output-files", k, c.posOf(pk, cs.Call.Pos()), cs.Callee+" truncates")
		}
		checkOpenTruncates(c, "C19.R2.output-files", pk, nil, 0)
	}
	// --keep-spec-order: the x-order pass is format-agnostic, it never hands its input back unchanged
	if gen := c.Prog("./generator").ByPath[load.Mod+"/generator"]; gen == nil {
		c.Anchor("C19.R3.formats", "generator package", "not loaded")
	} else if fd := load.FuncDecl(gen, "WithAutoXOrder"); fd == nil {
		c.Anchor("C19.R3.formats", "generator.WithAutoXOrder", "not found")
	} else {
		param := gen.TypesInfo.Defs[fd.Type.Params.List[0].Names[0]]
		bad := ""
		ast.Inspect(fd.Body, func(n ast.Node) bool {
			if _, isLit := n.(*ast.FuncLit); isLit {
				return false
			}
			if rs, ok := n.(*ast.ReturnStmt); ok && len(rs.Results) == 1 && identIs(gen.TypesInfo, rs.Results[0], param) {
				bad = c.posOf(gen, rs.Pos())
			}
			return true
		})
		c.Check(bad == "", "C19.R3.formats", "generator.WithAutoXOrder › never returns its input path unchanged", c.posOf(gen, fd.Pos()), "every return is the rewritten document",
			"WithAutoXOrder returns the input path untouched at "+bad+": with --keep-spec-order some inputs (by extension or format) do not get x-order while the other rendering of the same document does")
	}
}

// rendersSpec: the function takes or builds a *spec.Swagger and returns/writes bytes.
func rendersSpec(info *types.Info, fd *ast.FuncDecl) bool {
	for _, fl := range fd.Type.Params.List {
		if t := info.TypeOf(fl.Type); t != nil && strings.Contains(goan.NamedPath(t), "go-openapi/spec.Swagger") {
			return true
		}
	}
	return false
}

// checkGenericSource: the value handed to a YAML marshaller was filled by yaml.Unmarshal /
// json.Unmarshal into swag.JSONMapSlice / swag.ToDynamicJSON — from JSON bytes.
func checkGenericSource(c *Ctx, pk *packages.Package, fd *ast.FuncDecl, e ast.Expr, pos token.Pos) {
	info := pk.TypesInfo
	key := fmt.Sprintf("%s.%s › source of %s", pk.Name, load.FuncName(fd), goan.ExprString(e))
	// direct call: swag.ToDynamicJSON(doc)
	if call, ok := ast.Unparen(e).(*ast.CallExpr); ok {
		if fn := goan.Callee(info, call); fn != nil && goan.CalleeName(fn) == "github.com/go-openapi/swag.ToDynamicJSON" {
			c.Ok("C19.R1.yaml-from-json", key, c.posOf(pk, pos), "swag.ToDynamicJSON: goes through the JSON form")
			return
		}
	}
	id, ok := ast.Unparen(e).(*ast.Ident)
	if !ok {
		c.Bad("C19.R1.yaml-from-json", key, c.posOf(pk, pos), "cannot trace the value handed to the YAML marshaller back to the JSON form")
		return
	}
	obj := info.Uses[id]
	okSrc, why := false, "the value is not filled from JSON bytes"
	ast.Inspect(fd.Body, func(n ast.Node) bool {
		call, ok := n.(*ast.CallExpr)
		if !ok || len(call.Args) != 2 {
			return true
		}
		fn := goan.Callee(info, call)
		if fn == nil {
			return true
		}
		name := goan.CalleeName(fn)
		u, isAddr := ast.Unparen(call.Args[1]).(*ast.UnaryExpr)
		if !isAddr || u.Op != token.AND || !identIs(info, u.X, obj) {
			return true
		}
		switch {
		case strings.HasSuffix(name, "yaml.v3.Unmarshal") || strings.HasSuffix(name, "yaml.v2.Unmarshal"):
			okSrc, why = true, "decoded from the JSON bytes with yaml.Unmarshal (integers stay exact)"
		case name == "encoding/json.Unmarshal":
			if goan.NamedPath(obj.Type()) == "github.com/go-openapi/swag.JSONMapSlice" {
				okSrc, why = true, "decoded into swag.JSONMapSlice (ordered, exact numbers)"
			} else {
				why = "decoded with encoding/json into " + obj.Type().String() + ": numbers become float64"
			}
		}
		return true
	})
	c.Check(okSrc, "C19.R1.yaml-from-json", key, c.posOf(pk, pos), why, why)
	// what the decoder produced is what gets marshalled: no store through the variable between
	// the decode and the YAML marshaller (a rewriting pass changes the YAML rendering only)
	var stores []string
	ast.Inspect(fd.Body, func(n ast.Node) bool {
		as, ok := n.(*ast.AssignStmt)
		if !ok || as.Pos() > pos {
			return true
		}
		for _, l := range as.Lhs {
			root := ast.Unparen(l)
			depth := 0
			for {
				switch x := root.(type) {
				case *ast.IndexExpr:
					root, depth = x.X, depth+1
					continue
				case *ast.SelectorExpr:
					root, depth = x.X, depth+1
					continue
				case *ast.StarExpr:
					root, depth = x.X, depth+1
					continue
				}
				break
			}
			if depth > 0 && identIs(info, root, obj) {
				stores = append(stores, goan.ExprString(l))
			}
		}
		return true
	})
	c.Check(len(stores) == 0, "C19.R1.yaml-from-json", key+" › marshalled as decoded", c.posOf(pk, pos), "no store through the decoded value before it is marshalled",
		fmt.Sprintf("the decoded value is rewritten (%v) before it is marshalled to YAML: the YAML rendering is computed from something else than the JSON rendering", stores))
}

// checkVerbatim: for every local assigned from a marshaller call, all later uses are sinks.
func checkVerbatim(c *Ctx, pk *packages.Package, fd *ast.FuncDecl) {
	info := pk.TypesInfo
	marshalled := map[types.Object]token.Pos{}
	ast.Inspect(fd.Body, func(n ast.Node) bool {
		as, ok := n.(*ast.AssignStmt)
		if !ok || len(as.Rhs) != 1 {
			return true
		}
		call, ok := ast.Unparen(as.Rhs[0]).(*ast.CallExpr)
		if !ok {
			return true
		}
		fn := goan.Callee(info, call)
		if fn == nil {
			return true
		}
		name := goan.CalleeName(fn)
		if !isMarshaller(name) && fn.Name() != "marshalToYAMLFormat" && fn.Name() != "marshalToJSONFormat" {
			return true
		}
		if id, ok := as.Lhs[0].(*ast.Ident); ok && id.Name != "_" {
			o := info.Defs[id]
			if o == nil {
				o = info.Uses[id]
			}
			if _, seen := marshalled[o]; !seen && o != nil {
				if t, isSlice := o.Type().Underlying().(*types.Slice); isSlice && t.Elem().String() == "byte" {
					marshalled[o] = as.Pos()
				}
			}
		}
		return true
	})
	for obj, first := range marshalled {
		var bad []string
		// assignments from anything that is not a marshaller / a type assertion of the YAML result
		for _, a := range goan.AssignmentsTo(info, fd.Body, obj) {
			if a.Rhs == nil {
				continue
			}
			switch x := ast.Unparen(a.Rhs).(type) {
			case *ast.CallExpr:
				fn := goan.Callee(info, x)
				if fn != nil && (isMarshaller(goan.CalleeName(fn)) || fn.Name() == "marshalToYAMLFormat" || fn.Name() == "marshalToJSONFormat") {
					continue
				}
				bad = append(bad, "reassigned from "+goan.ExprString(a.Rhs))
			case *ast.TypeAssertExpr:
				continue // b = bb.([]byte) of the MarshalYAML result
			default:
				bad = append(bad, "reassigned from "+goan.ExprString(a.Rhs))
			}
		}
		// uses as call arguments
		ast.Inspect(fd.Body, func(n ast.Node) bool {
			call, ok := n.(*ast.CallExpr)
			if !ok || call.Pos() < first {
				return true
			}
			for _, a := range call.Args {
				uses := false
				ast.Inspect(a, func(m ast.Node) bool {
					if id, ok := m.(*ast.Ident); ok && info.Uses[id] == obj {
						uses = true
					}
					return true
				})
				if !uses {
					continue
				}
				// conversion string(b) — look at the enclosing call instead
				if tv, ok := info.Types[call.Fun]; ok && tv.IsType() {
					continue
				}
				fn := goan.Callee(info, call)
				name := ""
				if fn != nil {
					name = goan.CalleeName(fn)
				}
				switch {
				case name == "os.WriteFile", name == "fmt.Println", name == "fmt.Print", name == "fmt.Fprint", name == "fmt.Fprintln",
					strings.HasSuffix(name, ".Write"), strings.HasSuffix(name, ".WriteString"),
					name == "encoding/json.Unmarshal", strings.HasSuffix(name, "yaml.v3.Unmarshal"), strings.HasSuffix(name, "yaml.v2.Unmarshal"),
					name == "encoding/json.Indent":
				default:
					bad = append(bad, "passed to "+goan.ExprString(call.Fun))
				}
			}
			return true
		})
		// a YAML rendering ends with its own line feed: printed with Println it gains one, which a
		// final block scalar (|+) takes as content. Println is for the JSON rendering only.
		var yamlGuards, lnGuards [][]goan.Lit
		var lnPos []token.Pos
		goan.WalkGuards(info, fd.Body, func(leaf ast.Node, guards []goan.Lit, _ []ast.Stmt) {
			if as, ok := leaf.(*ast.AssignStmt); ok && len(as.Lhs) >= 1 && len(as.Rhs) == 1 && identIs(info, as.Lhs[0], obj) {
				isYAML := false
				switch x := ast.Unparen(as.Rhs[0]).(type) {
				case *ast.TypeAssertExpr:
					isYAML = true // b = bb.([]byte) of the MarshalYAML result
				case *ast.CallExpr:
					if fn := goan.Callee(info, x); fn != nil {
						n := goan.CalleeName(fn)
						isYAML = fn.Name() == "marshalToYAMLFormat" || strings.HasSuffix(n, "yaml.v3.Marshal") || strings.HasSuffix(n, "yaml.v2.Marshal")
					}
				}
				if isYAML {
					yamlGuards = append(yamlGuards, guards)
				}
			}
			if rs, ok := leaf.(*ast.RangeStmt); ok {
				leaf = rs.X
			}
			ast.Inspect(leaf, func(n ast.Node) bool {
				if _, isLit := n.(*ast.FuncLit); isLit {
					return false
				}
				call, ok := n.(*ast.CallExpr)
				if !ok {
					return true
				}
				fn := goan.Callee(info, call)
				if fn == nil || (goan.CalleeName(fn) != "fmt.Println" && goan.CalleeName(fn) != "fmt.Fprintln") {
					return true
				}
				uses := false
				ast.Inspect(call, func(m ast.Node) bool {
					if id, ok := m.(*ast.Ident); ok && info.Uses[id] == obj {
						uses = true
					}
					return true
				})
				if uses {
					lnGuards = append(lnGuards, guards)
					lnPos = append(lnPos, call.Pos())
				}
				return true
			})
		})
		// a boolean local stands for the test it was assigned from (asJSON := format == "json")
		norm := func(gs []goan.Lit) []goan.Lit {
			out := make([]goan.Lit, len(gs))
			for i, g := range gs {
				out[i] = g
				if g.Tag == nil && !g.NonEmpty {
					out[i].E = goan.ResolveLocal(info, fd.Body, g.E)
				}
			}
			return out
		}
		for i, lg := range lnGuards {
			for _, yg := range yamlGuards {
				if !guardsExclude(info, norm(lg), norm(yg)) {
					bad = append(bad, "printed with Println at "+c.posOf(pk, lnPos[i])+" although it may hold the YAML rendering (which ends with its own line feed)")
				}
			}
		}
		sort.Strings(bad)
		c.Check(len(bad) == 0, "C19.R2.verbatim", fmt.Sprintf("%s.%s › marshalled bytes %s", pk.Name, load.FuncName(fd), obj.Name()), c.posOf(pk, first),
			"only written, printed, returned or decoded", fmt.Sprintf("the rendered document is %s before being written: one rendering is altered and no longer reloads equal to the other", strings.Join(uniq(bad), "; ")))
	}
}

// checkFormatSwitches: the shared writer is used by flatten/expand/mixin with the user's
// Format; format tests cover the `choice:` values of the flag.
func checkFormatSwitches(c *Ctx, pkgs []*packages.Package) {
	rule := "C19.R3.formats"
	c.Rule(rule, "flatten/expand/mixin call the shared writeToFile with c.Format; the format flag's choices are all handled; pretty/compact only affects JSON", 5)
	var cmds *packages.Package
	for _, p := range pkgs {
		if p.PkgPath == load.PkgCommands {
			cmds = p
		}
	}
	if cmds == nil {
		c.Anchor(rule, "commands package", "not loaded")
		return
	}
	info := cmds.TypesInfo
	for _, recv := range []string{"ExpandSpec", "FlattenSpec", "MixinSpec"} {
		ok := false
		var pos token.Pos
		for _, fd := range load.AllFuncs(cmds) {
			if load.RecvName(fd) != recv {
				continue
			}
			if !pos.IsValid() {
				pos = fd.Pos()
			}
			ast.Inspect(fd.Body, func(n ast.Node) bool {
				call, isCall := n.(*ast.CallExpr)
				if !isCall || len(call.Args) != 4 {
					return true
				}
				if f := goan.Callee(info, call); f != nil && f.Name() == "writeToFile" && goan.LastSel(call.Args[2]) == "Format" {
					ok = true
				}
				return true
			})
		}
		c.Check(ok, rule, "commands."+recv+" › writeToFile(…, c.Format, …)", c.posOf(cmds, pos), "shared writer with the user's format", "the command does not write through the shared writer with the requested format")
	}
	// writeToFile: the arms: pretty&&asJSON, asJSON, default (YAML): asJSON := format == "json"
	if fd := load.FuncDecl(cmds, "writeToFile"); fd != nil {
		src := nodeText(cmds, fd)
		c.Check(strings.Contains(src, `format == "json"`) && strings.Contains(src, "MarshalYAML"), rule, "commands.writeToFile › json / yaml arms", c.posOf(cmds, fd.Pos()), "JSON iff format == \"json\", YAML otherwise", "the writer no longer distinguishes exactly json from yaml")
		// pretty only in a conjunction with asJSON
		okPretty := true
		ast.Inspect(fd.Body, func(n ast.Node) bool {
			cc, ok := n.(*ast.CaseClause)
			if !ok {
				return true
			}
			for _, e := range cc.List {
				s := goan.ExprString(e)
				if strings.Contains(s, "pretty") && !strings.Contains(s, "asJSON") {
					okPretty = false
				}
			}
			return true
		})
		c.Check(okPretty, rule, "commands.writeToFile › pretty only with JSON", c.posOf(cmds, fd.Pos()), "compact/pretty does not select the YAML arm", "the pretty flag influences the YAML arm")
	} else {
		c.Anchor(rule, "writeToFile", "not found")
	}
	// choice tags of Format fields
	for _, p := range pkgs {
		for _, f := range p.Syntax {
			ast.Inspect(f, func(n ast.Node) bool {
				st, ok := n.(*ast.StructType)
				if !ok {
					return true
				}
				for _, fl := range st.Fields.List {
					if len(fl.Names) == 1 && fl.Names[0].Name == "Format" && fl.Tag != nil && strings.Contains(fl.Tag.Value, "the format for the spec document") {
						var choices []string
						tag := fl.Tag.Value
						for {
							i := strings.Index(tag, `choice:"`)
							if i < 0 {
								break
							}
							rest := tag[i+len(`choice:"`):]
							j := strings.IndexByte(rest, '"')
							choices = append(choices, rest[:j])
							tag = rest[j:]
						}
						sort.Strings(choices)
						c.Check(strings.Join(choices, ",") == "json,yaml", rule, fmt.Sprintf("%s › Format flag choices at %s", p.Name, c.posOf(p, fl.Pos())), c.posOf(p, fl.Pos()), "json, yaml", fmt.Sprintf("the format flag offers %v: both json and yaml must be offered by every spec-emitting command", choices))
					}
				}
				return true
			})
		}
	}
}


// guardsExclude: the two guard sets cannot hold together — a literal of one is the negation of a
// literal of the other, or one says X == "" where the other needs strings.HasSuffix(X, "non-empty").
func guardsExclude(info *types.Info, a, b []goan.Lit) bool {
	for _, x := range a {
		for _, y := range b {
			if x.Tag != nil || y.Tag != nil || x.NonEmpty || y.NonEmpty {
				continue
			}
			if goan.ExprString(x.E) == goan.ExprString(y.E) && x.Pos != y.Pos {
				return true
			}
			for _, pr := range [][2]goan.Lit{{x, y}, {y, x}} {
				emptyOf := ""
				if be, ok := ast.Unparen(pr[0].E).(*ast.BinaryExpr); ok && be.Op == token.EQL && pr[0].Pos {
					if s, ok := goan.StringVal(info, be.Y); ok && s == "" {
						emptyOf = goan.ExprString(be.X)
					}
				}
				if emptyOf == "" || !pr[1].Pos {
					continue
				}
				// every disjunct of the other literal is HasSuffix(emptyOf, "non-empty")
				all := true
				var disj func(e ast.Expr)
				disj = func(e ast.Expr) {
					if be, ok := ast.Unparen(e).(*ast.BinaryExpr); ok && be.Op == token.LOR {
						disj(be.X)
						disj(be.Y)
						return
					}
					call, ok := ast.Unparen(e).(*ast.CallExpr)
					if !ok || len(call.Args) != 2 {
						all = false
						return
					}
					fn := goan.Callee(info, call)
					suffix, isConst := goan.StringVal(info, call.Args[1])
					if fn == nil || goan.CalleeName(fn) != "strings.HasSuffix" || goan.ExprString(call.Args[0]) != emptyOf || !isConst || suffix == "" {
						all = false
					}
				}
				disj(pr[1].E)
				if all {
					return true
				}
			}
		}
	}
	return false
}

// checkDocumentSettled: a function that renders a document in either format marshals the same
// document in both: once the first marshalling call is written, nothing is stored into a value
// of the spec package any more. A store between the two renderings (after the `return` of the
// JSON branch, before yaml.Marshal) gives one format a document the other never saw.
func checkDocumentSettled(c *Ctx, rule string, pk *packages.Package, fd *ast.FuncDecl) {
	info := pk.TypesInfo
	first := token.NoPos
	ast.Inspect(fd.Body, func(n ast.Node) bool {
		call, ok := n.(*ast.CallExpr)
		if !ok {
			return true
		}
		fn := goan.Callee(info, call)
		if fn == nil {
			return true
		}
		name := goan.CalleeName(fn)
		if isMarshaller(name) || name == "encoding/json.Encoder.Encode" || name == "(*encoding/json.Encoder).Encode" || (fn.Name() == "Encode" && fn.Pkg() != nil && fn.Pkg().Path() == "encoding/json") || fn.Name() == "marshalToYAMLFormat" || fn.Name() == "marshalToJSONFormat" {
			if first == token.NoPos || call.Pos() < first {
				first = call.Pos()
			}
		}
		return true
	})
	if first == token.NoPos {
		return
	}
	late := ""
	ast.Inspect(fd.Body, func(n ast.Node) bool {
		as, ok := n.(*ast.AssignStmt)
		if !ok || as.Pos() < first {
			return true
		}
		for _, l := range as.Lhs {
			se, ok := ast.Unparen(l).(*ast.SelectorExpr)
			if !ok {
				continue
			}
			t := info.TypeOf(se.X)
			if t == nil {
				continue
			}
			if p, ok := t.(*types.Pointer); ok {
				t = p.Elem()
			}
			if nt, ok := t.(*types.Named); ok && nt.Obj().Pkg() != nil && nt.Obj().Pkg().Path() == "github.com/go-openapi/spec" {
				late = goan.ExprString(l) + " at " + c.posOf(pk, as.Pos())
			}
		}
		return true
	})
	c.Check(late == "", rule, fmt.Sprintf("%s.%s › the document is complete before it is first marshalled", pk.Name, load.FuncName(fd)), c.posOf(pk, first), "no store into the document after the first marshalling call",
		"a field of the document is stored ("+late+") after the first marshalling call of the function: the rendering written by the earlier branch (JSON) and the one written after the store (YAML) are renderings of two different documents")
}
