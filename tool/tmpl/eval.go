package tmpl

// Abstract evaluation of the code-generation templates (DESIGN E4 + E5): every template is
// walked once per (dot type, lexical entry set). The walk resolves every field / method
// access against the Go view-model with go/types, tracks the Go lexical context the emitted
// text is in (as a set of states), and records for every emitted value where it comes from
// (which struct fields) and what its pipeline did to it (sanitiser kind).

import (
	"fmt"
	"go/ast"
	"go/types"
	"regexp"
	"sort"
	"strconv"
	"strings"
	"text/template/parse"

	"golang.org/x/tools/go/packages"

	"verif/tool/load"
)

// Lexical states of Go source.
const (
	LCode   = "code"
	LLine   = "line-comment"
	LBlock  = "block-comment"
	LString = "string"
	LRaw    = "raw-string"
	LRune   = "rune"
)

// Value kinds produced by a pipeline.
type Kind string

const (
	KRaw       Kind = "RAW"
	KCommented Kind = "COMMENTED"
	KBlockSafe Kind = "BLOCKSAFE"
	KTickSafe  Kind = "TICKSAFE"
	KQuoted    Kind = "QUOTED"
	KGoSyntax  Kind = "GOSYNTAX"
	KJSON      Kind = "JSON"
	KIdent     Kind = "IDENT"
	KNonText   Kind = "NONTEXT"
)

// Origin is a struct field a value was read from.
type Origin struct {
	Owner string // named type owning the field ("GenSchema", "spec.InfoProps" → "InfoProps")
	Field string
	Path  string // the chain as written (".Info.Description")
}

// Val is an abstract value.
type Val struct {
	T       types.Type
	Origins []Origin
	Kind    Kind
	Funcs   []string // function chain applied
}

// Emission is one value written to the output.
type Emission struct {
	Tree    *Tree
	Pos     parse.Pos
	Pipe    string
	Val     Val
	Context []string // lexical states possible at this point
	Inst    string   // instantiation (template|dot type)
	Chain   []string // template call chain from the root
}

// CommentedCode: a Go code marker inside a text node that is lexed as comment text.
type CommentedCode struct {
	Tree   *Tree
	Pos    parse.Pos
	Marker string
	Entry  string
	Inst   string
}

// Finding of the typing pass.
type TypeFinding struct {
	Tree     *Tree
	Pos      parse.Pos
	Chain    string
	Field    string
	OnType   string
	Definite bool
	Inst     string
	Define   string
}

type Evaluator struct {
	F              *Forest
	Gen            *packages.Package
	FuncRes        map[string]types.Type // FuncMap name -> first result type
	FuncSig        map[string]*types.Signature
	Known          map[string]bool
	Sprig          map[string]bool
	Accesses       int
	Unknown        int
	Findings       []TypeFinding
	Emits          []Emission
	CommentedCode  []CommentedCode
	Undefined      []string            // calls to undefined templates
	UnknownFuncs   map[string]string   // function name -> first use position
	insts          map[string][]string // memo: key -> exit set
	inprog         map[string]bool
	Instantiations map[string]bool
	FuncUses       map[string]int
	stack          []string
	rootName       string
	// Qualifiers: root -> package qualifier -> first use position; Imports: root -> names imported by the root's import block
	Qualifiers map[string]map[string]string
}

func NewEvaluator(f *Forest, gen *packages.Package, sprigNames map[string]bool) *Evaluator {
	ev := &Evaluator{F: f, Gen: gen, FuncRes: map[string]types.Type{}, FuncSig: map[string]*types.Signature{}, Known: map[string]bool{}, Sprig: sprigNames,
		UnknownFuncs: map[string]string{}, insts: map[string][]string{}, inprog: map[string]bool{}, Instantiations: map[string]bool{}, FuncUses: map[string]int{}}
	ev.loadFuncMap()
	return ev
}

// loadFuncMap resolves the `extra` literal of DefaultFuncMap: key -> Go function signature.
func (ev *Evaluator) loadFuncMap() {
	fd := load.FuncDecl(ev.Gen, "DefaultFuncMap")
	if fd == nil {
		return
	}
	ast.Inspect(fd.Body, func(n ast.Node) bool {
		cl, ok := n.(*ast.CompositeLit)
		if !ok {
			return true
		}
		for _, e := range cl.Elts {
			kv, ok := e.(*ast.KeyValueExpr)
			if !ok {
				continue
			}
			bl, ok := kv.Key.(*ast.BasicLit)
			if !ok {
				continue
			}
			k, _ := strconv.Unquote(bl.Value)
			t := ev.Gen.TypesInfo.TypeOf(kv.Value)
			if t == nil {
				continue
			}
			ev.Known[k] = true
			if sig, ok := t.Underlying().(*types.Signature); ok {
				ev.FuncSig[k] = sig
				if sig.Results().Len() > 0 {
					ev.FuncRes[k] = sig.Results().At(0).Type()
				}
			}
		}
		return true
	})
}

func tstr(t types.Type) string {
	if t == nil {
		return "?"
	}
	return types.TypeString(t, func(p *types.Package) string { return p.Name() })
}

func deref(t types.Type) types.Type {
	for t != nil {
		p, ok := t.Underlying().(*types.Pointer)
		if !ok {
			return t
		}
		t = p.Elem()
	}
	return t
}

func namedOf(t types.Type) string {
	t = deref(t)
	if t == nil {
		return ""
	}
	t = types.Unalias(t)
	if n, ok := t.(*types.Named); ok {
		return n.Obj().Name()
	}
	return ""
}

// ---------------------------------------------------------------------------------------
// lexical scanning

func lex1(state string, s string) string {
	i := 0
	for i < len(s) {
		c := s[i]
		switch state {
		case LCode:
			switch {
			case c == '/' && i+1 < len(s) && s[i+1] == '/':
				state = LLine
				i++
			case c == '/' && i+1 < len(s) && s[i+1] == '*':
				state = LBlock
				i++
			case c == '"':
				state = LString
			case c == '`':
				state = LRaw
			case c == '\'':
				state = LRune
			}
		case LLine:
			if c == '\n' {
				state = LCode
			}
		case LBlock:
			if c == '*' && i+1 < len(s) && s[i+1] == '/' {
				state = LCode
				i++
			}
		case LString:
			if c == '\\' {
				i++
			} else if c == '"' || c == '\n' {
				state = LCode
			}
		case LRune:
			if c == '\\' {
				i++
			} else if c == '\'' || c == '\n' {
				state = LCode
			}
		case LRaw:
			if c == '`' {
				state = LCode
			}
		}
		i++
	}
	return state
}

func lexSet(states []string, s string) []string {
	set := map[string]bool{}
	for _, st := range states {
		set[lex1(st, s)] = true
	}
	return setList(set)
}

// CodeMarkers are token sequences that only make sense as Go code.
var CodeMarkers = []string{":=", "err != nil", "if err", "func (", "); err"}

// MarkersInComments finds code markers of a text node that are lexed inside a comment when
// the node is entered in the given state.
func MarkersInComments(state string, s string) []string {
	var out []string
	for _, mk := range CodeMarkers {
		from := 0
		for {
			i := strings.Index(s[from:], mk)
			if i < 0 {
				break
			}
			at := from + i
			st := lex1(state, s[:at])
			if st == LLine || st == LBlock {
				out = append(out, mk)
			}
			from = at + len(mk)
		}
	}
	return out
}

func setList(set map[string]bool) []string {
	var out []string
	for k := range set {
		out = append(out, k)
	}
	sort.Strings(out)
	return out
}

func union(a, b []string) []string {
	set := map[string]bool{}
	for _, x := range a {
		set[x] = true
	}
	for _, x := range b {
		set[x] = true
	}
	return setList(set)
}

// ---------------------------------------------------------------------------------------
// environment

type env struct {
	t    *Tree
	vars []map[string]Val
	cond int
	inst string
}

func (e *env) push()               { e.vars = append(e.vars, map[string]Val{}) }
func (e *env) pop()                { e.vars = e.vars[:len(e.vars)-1] }
func (e *env) set(n string, v Val) { e.vars[len(e.vars)-1][n] = v }
func (e *env) assign(n string, v Val) {
	for i := len(e.vars) - 1; i >= 0; i-- {
		if _, ok := e.vars[i][n]; ok {
			e.vars[i][n] = v
			return
		}
	}
	e.set(n, v)
}
func (e *env) get(n string) (Val, bool) {
	for i := len(e.vars) - 1; i >= 0; i-- {
		if v, ok := e.vars[i][n]; ok {
			return v, true
		}
	}
	return Val{}, false
}

// Root evaluates a root template with the given dot type in Go code context.
func (ev *Evaluator) Root(name string, dot types.Type) {
	ev.stack = nil
	ev.rootName = name
	defer func() { ev.rootName = "" }()
	ev.call(name, Val{T: dot}, []string{LCode}, nil, 0)
}

// RootIn evaluates a root template in a given lexical context (markdown roots use "text").
func (ev *Evaluator) RootIn(name string, dot types.Type, ctx string) {
	ev.stack = nil
	ev.call(name, Val{T: dot}, []string{ctx}, nil, 0)
}

func (ev *Evaluator) call(name string, dot Val, entry []string, from *Tree, pos parse.Pos) []string {
	key := name + "|" + tstr(dot.T) + "|" + strings.Join(entry, "+")
	ev.Instantiations[name+"|"+tstr(dot.T)] = true
	if exit, ok := ev.insts[key]; ok {
		return exit
	}
	if ev.inprog[key] {
		return entry
	}
	t := ev.F.Trees[name]
	if t == nil {
		where := ""
		if from != nil {
			where = from.PosStr(pos)
		}
		ev.Undefined = append(ev.Undefined, fmt.Sprintf("%s (called at %s)", name, where))
		return entry
	}
	ev.inprog[key] = true
	ev.stack = append(ev.stack, name)
	e := &env{t: t, inst: name + "|" + tstr(dot.T)}
	e.push()
	e.set("$", dot)
	exit := ev.walkList(e, t.Tree.Root, dot, entry)
	ev.stack = ev.stack[:len(ev.stack)-1]
	delete(ev.inprog, key)
	ev.insts[key] = exit
	return exit
}

func (ev *Evaluator) walkList(e *env, l *parse.ListNode, dot Val, st []string) []string {
	if l == nil {
		return st
	}
	for _, n := range l.Nodes {
		st = ev.walk(e, n, dot, st)
	}
	return st
}

func (ev *Evaluator) walk(e *env, n parse.Node, dot Val, st []string) []string {
	switch x := n.(type) {
	case *parse.TextNode:
		if ev.rootName != "" && len(st) == 1 && (st[0] == LCode) {
			ev.noteQualifiers(e.t, x)
		}
		for _, s0 := range st {
			for _, mk := range MarkersInComments(s0, string(x.Text)) {
				ev.CommentedCode = append(ev.CommentedCode, CommentedCode{Tree: e.t, Pos: x.Pos, Marker: mk, Entry: s0, Inst: e.inst})
			}
		}
		return lexSet(st, string(x.Text))
	case *parse.ActionNode:
		v := ev.evalPipe(e, x.Pipe, dot)
		if len(x.Pipe.Decl) == 0 {
			ev.Emits = append(ev.Emits, Emission{Tree: e.t, Pos: x.Pos, Pipe: x.Pipe.String(), Val: v, Context: st, Inst: e.inst, Chain: append([]string{}, ev.stack...)})
		}
		return st
	case *parse.IfNode:
		e.push()
		ev.evalPipe(e, x.Pipe, dot)
		e.cond++
		s1 := ev.walkList(e, x.List, dot, st)
		s2 := st
		if x.ElseList != nil {
			s2 = ev.walkList(e, x.ElseList, dot, st)
		}
		e.cond--
		e.pop()
		return union(s1, s2)
	case *parse.WithNode:
		e.push()
		nd := ev.evalPipe(e, x.Pipe, dot)
		e.cond++
		s1 := ev.walkList(e, x.List, nd, st)
		s2 := st
		if x.ElseList != nil {
			s2 = ev.walkList(e, x.ElseList, dot, st)
		}
		e.cond--
		e.pop()
		return union(s1, s2)
	case *parse.RangeNode:
		e.push()
		coll := ev.evalPipeNoDecl(e, x.Pipe, dot)
		var kt, et types.Type
		if coll.T != nil {
			switch u := deref(coll.T).Underlying().(type) {
			case *types.Slice:
				kt, et = types.Typ[types.Int], u.Elem()
			case *types.Array:
				kt, et = types.Typ[types.Int], u.Elem()
			case *types.Map:
				kt, et = u.Key(), u.Elem()
			case *types.Basic:
				if u.Info()&types.IsInteger != 0 {
					kt, et = types.Typ[types.Int], types.Typ[types.Int]
				}
			}
		}
		// elements of a tainted collection keep the collection's origins (e.g. range .Examples)
		ev_ := Val{T: et, Origins: coll.Origins, Kind: KRaw}
		kv := Val{T: kt, Origins: nil, Kind: KRaw}
		if _, isMap := deref0(coll.T).(*types.Map); isMap {
			kv.Origins = coll.Origins
		}
		if len(x.Pipe.Decl) == 1 {
			e.set(x.Pipe.Decl[0].Ident[0], ev_)
		} else if len(x.Pipe.Decl) == 2 {
			e.set(x.Pipe.Decl[0].Ident[0], kv)
			e.set(x.Pipe.Decl[1].Ident[0], ev_)
		}
		e.cond++
		s1 := ev.walkList(e, x.List, ev_, st)
		s2 := ev.walkList(e, x.List, ev_, union(s1, st))
		res := union(union(s1, s2), st)
		if x.ElseList != nil {
			res = union(res, ev.walkList(e, x.ElseList, dot, st))
		}
		e.cond--
		e.pop()
		return res
	case *parse.TemplateNode:
		nd := Val{}
		if x.Pipe != nil {
			nd = ev.evalPipe(e, x.Pipe, dot)
		}
		return ev.call(x.Name, nd, st, e.t, x.Pos)
	case *parse.ListNode:
		return ev.walkList(e, x, dot, st)
	}
	return st
}

func deref0(t types.Type) types.Type {
	if t == nil {
		return nil
	}
	return deref(t).Underlying()
}

func (ev *Evaluator) evalPipeNoDecl(e *env, p *parse.PipeNode, dot Val) Val {
	var res Val
	for i, c := range p.Cmds {
		if i == 0 {
			res = ev.evalCmd(e, c, dot, nil)
		} else {
			prev := res
			res = ev.evalCmd(e, c, dot, &prev)
		}
	}
	return res
}

func (ev *Evaluator) evalPipe(e *env, p *parse.PipeNode, dot Val) Val {
	if p == nil {
		return Val{}
	}
	res := ev.evalPipeNoDecl(e, p, dot)
	for _, d := range p.Decl {
		if p.IsAssign {
			e.assign(d.Ident[0], res)
		} else {
			e.set(d.Ident[0], res)
		}
	}
	return res
}

// text-preserving functions: result carries the argument's origins with kind RAW
var textPreserving = map[string]bool{"humanize": true, "pluralizeFirstWord": true, "trimSpace": true, "trim": true, "upper": true, "lower": true, "title": true, "untitle": true,
	"dropPackage": true, "print": true, "println": true, "join": true, "replace": true, "trimSuffix": true, "trimPrefix": true, "trimAll": true, "html": true,
	"mdBlock": true, "padSurround": true, "repeat": true, "substr": true, "trunc": true, "nospace": true, "indent": true, "nindent": true, "quote": true, "squote": true,
	"toString": true, "default": true, "coalesce": true, "ternary": true, "first": true, "last": true, "index": true, "cleanupEnumVariant": false, "stripPackage": true, "wrap": true, "cat": true, "list": true, "splitList": true, "toStrings": true, "inspect": true}

// identifier manglers: the result contains identifier/path-safe characters only
var manglers = map[string]bool{"pascalize": true, "camelize": true, "varname": true, "snakize": true, "toPackagePath": true, "toPackage": true, "toPackageName": true,
	"dasherize": true, "mediaGoName": true, "flagNameVar": true, "flagValueVar": true, "flagDefaultVar": true, "flagModelVar": true, "flagDescriptionVar": true, "cmdName": true, "cmdGroupName": true,
	"cleanupEnumVariant": true, "camelcase": true, "snakecase": true, "kebabcase": true}

func mergeOrigins(vs ...Val) []Origin {
	var out []Origin
	seen := map[string]bool{}
	for _, v := range vs {
		for _, o := range v.Origins {
			k := o.Owner + "." + o.Field
			if !seen[k] {
				seen[k] = true
				out = append(out, o)
			}
		}
	}
	return out
}

func isNonText(t types.Type) bool {
	if t == nil {
		return false
	}
	switch u := deref(t).Underlying().(type) {
	case *types.Basic:
		return u.Info()&(types.IsNumeric|types.IsBoolean) != 0
	}
	return false
}

func (ev *Evaluator) evalCmd(e *env, c *parse.CommandNode, dot Val, piped *Val) Val {
	first := c.Args[0]
	var args []Val
	for _, a := range c.Args[1:] {
		args = append(args, ev.evalArg(e, a, dot))
	}
	if piped != nil {
		args = append(args, *piped)
	}
	id, isIdent := first.(*parse.IdentifierNode)
	if !isIdent {
		v := ev.evalArg(e, first, dot)
		// a field that is a method taking arguments: .Method arg
		return v
	}
	name := id.Ident
	ev.FuncUses[name]++
	out := Val{Funcs: []string{name}}
	for _, a := range args {
		out.Funcs = append(out.Funcs, a.Funcs...)
	}
	switch name {
	case "and", "or":
		// value of one of the operands
		out.Origins = mergeOrigins(args...)
		out.Kind = KRaw
		if len(args) > 0 {
			out.T = args[len(args)-1].T
		}
		return out
	case "not", "eq", "ne", "lt", "le", "gt", "ge":
		return Val{T: types.Typ[types.Bool], Kind: KNonText, Funcs: out.Funcs}
	case "len":
		return Val{T: types.Typ[types.Int], Kind: KNonText, Funcs: out.Funcs}
	case "index":
		if len(args) >= 1 && args[0].T != nil {
			switch u := deref(args[0].T).Underlying().(type) {
			case *types.Slice:
				out.T = u.Elem()
			case *types.Map:
				out.T = u.Elem()
			}
		}
		if len(args) >= 1 {
			out.Origins = args[0].Origins
		}
		out.Kind = KRaw
		return out
	case "printf":
		out.T = types.Typ[types.String]
		format := ""
		if len(c.Args) > 1 {
			if s, ok := c.Args[1].(*parse.StringNode); ok {
				format = s.Text
			}
		}
		rest := args
		if format != "" && len(rest) > 0 {
			rest = rest[1:]
		}
		out.Origins = mergeOrigins(rest...)
		out.Funcs = append([]string{"printf:" + format}, out.Funcs[1:]...)
		verbs := verbsOf(format)
		switch {
		case len(verbs) == 1 && len(rest) == 1 && verbs[0] == "q" && strings.TrimSpace(strings.ReplaceAll(format, "%q", "")) == "":
			out.Kind = KQuoted
		case len(verbs) == 1 && len(rest) == 1 && verbs[0] == "#v" && strings.TrimSpace(strings.ReplaceAll(format, "%#v", "")) == "":
			out.Kind = KGoSyntax
		case len(verbs) == 1 && len(rest) == 1 && (verbs[0] == "s" || verbs[0] == "v") && format == "%"+verbs[0]:
			out.Kind = rest[0].Kind
			if isNonText(rest[0].T) {
				out.Kind = KNonText
			}
		default:
			// mixed format: safe only if every interpolated value is safe in every context
			out.Kind = KIdent
			for i, r := range rest {
				vb := ""
				if i < len(verbs) {
					vb = verbs[i]
				}
				switch {
				case vb == "q":
				case vb == "d" || vb == "t" || isNonText(r.T):
				case r.Kind == KIdent || r.Kind == KNonText || r.Kind == KQuoted:
				case len(r.Origins) == 0:
				default:
					out.Kind = KRaw
				}
			}
		}
		return out
	case "comment":
		out.T, out.Kind, out.Origins = types.Typ[types.String], KCommented, mergeOrigins(args...)
		return out
	case "blockcomment":
		out.T, out.Kind, out.Origins = types.Typ[types.String], KBlockSafe, mergeOrigins(args...)
		return out
	case "escapeBackticks":
		out.T, out.Kind, out.Origins = types.Typ[types.String], KTickSafe, mergeOrigins(args...)
		if len(args) == 1 && args[0].Kind == KJSON {
			out.Funcs = append(out.Funcs, "json")
		}
		return out
	case "json", "prettyjson":
		out.T, out.Kind, out.Origins = types.Typ[types.String], KJSON, mergeOrigins(args...)
		return out
	case "arrayInitializer":
		out.T, out.Kind, out.Origins = types.Typ[types.String], KGoSyntax, mergeOrigins(args...)
		return out
	}
	if manglers[name] {
		out.T, out.Kind, out.Origins = types.Typ[types.String], KIdent, mergeOrigins(args...)
		return out
	}
	if r, ok := ev.FuncRes[name]; ok {
		out.T = r
	} else if !ev.Known[name] && !ev.Sprig[name] && !builtinFuncs[name] {
		if _, seen := ev.UnknownFuncs[name]; !seen {
			ev.UnknownFuncs[name] = e.t.PosStr(c.Pos)
		}
	}
	if isNonText(out.T) {
		out.Kind = KNonText
		return out
	}
	out.Origins = mergeOrigins(args...)
	out.Kind = KRaw
	return out
}

var builtinFuncs = map[string]bool{"and": true, "or": true, "not": true, "eq": true, "ne": true, "lt": true, "le": true, "gt": true, "ge": true, "len": true, "index": true, "slice": true,
	"print": true, "printf": true, "println": true, "html": true, "js": true, "urlquery": true, "call": true}

func verbsOf(format string) []string {
	var out []string
	for i := 0; i < len(format); i++ {
		if format[i] != '%' {
			continue
		}
		j := i + 1
		for j < len(format) && strings.ContainsRune("+-# 0123456789.", rune(format[j])) {
			j++
		}
		if j >= len(format) {
			break
		}
		if format[j] == '%' {
			i = j
			continue
		}
		flags := format[i+1 : j]
		v := string(format[j])
		if strings.Contains(flags, "#") {
			v = "#" + v
		}
		out = append(out, v)
		i = j
	}
	return out
}

func (ev *Evaluator) evalArg(e *env, a parse.Node, dot Val) Val {
	switch x := a.(type) {
	case *parse.DotNode:
		return dot
	case *parse.FieldNode:
		return ev.fields(e, dot, x.Ident, x.Pos, "."+strings.Join(x.Ident, "."))
	case *parse.VariableNode:
		v, ok := e.get(x.Ident[0])
		if !ok {
			return Val{}
		}
		if len(x.Ident) == 1 {
			return v
		}
		return ev.fields(e, v, x.Ident[1:], x.Pos, strings.Join(x.Ident, "."))
	case *parse.ChainNode:
		b := ev.evalArg(e, x.Node, dot)
		return ev.fields(e, b, x.Field, x.Pos, "(…)."+strings.Join(x.Field, "."))
	case *parse.PipeNode:
		return ev.evalPipe(e, x, dot)
	case *parse.StringNode:
		return Val{T: types.Typ[types.String], Kind: KIdent} // template-author constant
	case *parse.BoolNode:
		return Val{T: types.Typ[types.Bool], Kind: KNonText}
	case *parse.NumberNode:
		return Val{T: types.Typ[types.Int], Kind: KNonText}
	case *parse.NilNode:
		return Val{}
	case *parse.CommandNode:
		return ev.evalCmd(e, x, dot, nil)
	case *parse.IdentifierNode:
		// function used as an argument without call parentheses
		c := &parse.CommandNode{NodeType: parse.NodeCommand, Pos: x.Pos, Args: []parse.Node{x}}
		return ev.evalCmd(e, c, dot, nil)
	}
	return Val{}
}

func (ev *Evaluator) fields(e *env, base Val, ids []string, pos parse.Pos, chain string) Val {
	t := base.T
	origins := base.Origins
	for i, id := range ids {
		if t == nil {
			ev.Unknown++
			return Val{Origins: origins, Kind: KRaw}
		}
		bt := deref(t)
		if _, ok := bt.Underlying().(*types.Interface); ok {
			ev.Unknown++
			return Val{Origins: origins, Kind: KRaw}
		}
		if m, ok := bt.Underlying().(*types.Map); ok {
			t = m.Elem()
			continue
		}
		ev.Accesses++
		obj, _, _ := types.LookupFieldOrMethod(types.NewPointer(bt), true, ev.Gen.Types, id)
		if obj == nil {
			obj, _, _ = types.LookupFieldOrMethod(types.NewPointer(bt), true, nil, id)
		}
		if obj == nil || !obj.Exported() {
			ev.Findings = append(ev.Findings, TypeFinding{Tree: e.t, Pos: pos, Chain: chain, Field: id, OnType: tstr(bt), Definite: e.cond == 0, Inst: e.inst, Define: e.t.Name})
			return Val{}
		}
		switch o := obj.(type) {
		case *types.Var:
			t = o.Type()
			owner := ownerOf(bt, o)
			origins = append(append([]Origin{}, origins...), Origin{Owner: owner, Field: id, Path: "." + strings.Join(ids[:i+1], ".")})
		case *types.Func:
			sig := o.Type().(*types.Signature)
			if sig.Results().Len() > 0 {
				t = sig.Results().At(0).Type()
			} else {
				t = nil
			}
			origins = append(append([]Origin{}, origins...), Origin{Owner: namedOf(bt), Field: id + "()", Path: "." + strings.Join(ids[:i+1], ".")})
		}
	}
	k := KRaw
	if isNonText(t) {
		k = KNonText
	}
	return Val{T: t, Origins: origins, Kind: k}
}

// ownerOf finds the named struct that declares the (possibly promoted) field.
func ownerOf(bt types.Type, f *types.Var) string {
	var found string
	var visit func(t types.Type, depth int) bool
	visit = func(t types.Type, depth int) bool {
		t = deref(t)
		st, ok := t.Underlying().(*types.Struct)
		if !ok || depth > 6 {
			return false
		}
		for i := 0; i < st.NumFields(); i++ {
			if st.Field(i) == f {
				found = namedOf(t)
				return true
			}
		}
		for i := 0; i < st.NumFields(); i++ {
			if st.Field(i).Embedded() {
				if visit(st.Field(i).Type(), depth+1) {
					return true
				}
			}
		}
		return false
	}
	visit(bt, 0)
	if found == "" {
		found = namedOf(bt)
	}
	return found
}

var qualRx = regexp.MustCompile(`(^|[^A-Za-z0-9_.\])}])([a-z][a-z0-9]*)\.[A-Z][A-Za-z0-9_]*`)

// noteQualifiers records package-qualifier-looking tokens (pkg.Exported) of a code-state
// text node, skipping string and comment content.
func (ev *Evaluator) noteQualifiers(t *Tree, x *parse.TextNode) {
	if ev.Qualifiers == nil {
		ev.Qualifiers = map[string]map[string]string{}
	}
	m := ev.Qualifiers[ev.rootName]
	if m == nil {
		m = map[string]string{}
		ev.Qualifiers[ev.rootName] = m
	}
	txt := string(x.Text)
	// blank out comments and string literals
	var b strings.Builder
	state := LCode
	for i := 0; i < len(txt); i++ {
		prev := state
		state = lex1(state, txt[i:i+1])
		// two-character openers need lookahead: recompute from a window
		if prev == LCode && txt[i] == '/' && i+1 < len(txt) && (txt[i+1] == '/' || txt[i+1] == '*') {
			state = lex1(LCode, txt[i:i+2])
			b.WriteString("  ")
			i++
			continue
		}
		if prev == LBlock && txt[i] == '*' && i+1 < len(txt) && txt[i+1] == '/' {
			state = LCode
			b.WriteString("  ")
			i++
			continue
		}
		if prev == LCode && state == LCode {
			b.WriteByte(txt[i])
		} else {
			b.WriteByte(' ')
		}
	}
	for _, mm := range qualRx.FindAllStringSubmatch(b.String(), -1) {
		if _, ok := m[mm[2]]; !ok {
			m[mm[2]] = t.PosStr(x.Pos)
		}
	}
}
