package tmpl

// Linear view of a template (DESIGN E3 / E6): the define's text with actions rendered as
// ⟦pipeline⟧ placeholders, and for every byte the stack of enclosing control nodes. Rules
// query it with regular expressions over Go-looking text and inspect guards and order.

import (
	"regexp"
	"sort"
	"strings"
	"text/template/parse"
)

// Guard is one enclosing control construct.
type Guard struct {
	Kind string // if | else | range | with | else-with | template
	Pipe string
	Pos  parse.Pos
}

type span struct {
	start, end int
	guards     []Guard
	node       parse.Node
	pos        parse.Pos
}

// Linear is the linearised define.
type Linear struct {
	Tree  *Tree
	Text  string
	spans []span
	// Calls: template calls in document order
	Calls []TemplateCall
}

type TemplateCall struct {
	Name   string
	Pipe   string
	Guards []Guard
	Offset int
	Pos    parse.Pos
}

const (
	open   = "⟦"
	close_ = "⟧"
)

// Linearise renders the tree. Both branches of if/with are laid out one after the other.
func Linearise(t *Tree) *Linear {
	l := &Linear{Tree: t}
	var b strings.Builder
	var walk func(list *parse.ListNode, g []Guard)
	emit := func(s string, g []Guard, n parse.Node, pos parse.Pos) {
		start := b.Len()
		b.WriteString(s)
		l.spans = append(l.spans, span{start, b.Len(), append([]Guard{}, g...), n, pos})
	}
	walk = func(list *parse.ListNode, g []Guard) {
		if list == nil {
			return
		}
		for _, n := range list.Nodes {
			switch x := n.(type) {
			case *parse.TextNode:
				emit(string(x.Text), g, x, x.Pos)
			case *parse.ActionNode:
				if len(x.Pipe.Decl) == 0 {
					emit(open+x.Pipe.String()+close_, g, x, x.Pos)
				}
			case *parse.IfNode:
				walk(x.List, append(append([]Guard{}, g...), Guard{"if", x.Pipe.String(), x.Pos}))
				if x.ElseList != nil {
					walk(x.ElseList, append(append([]Guard{}, g...), Guard{"else", x.Pipe.String(), x.Pos}))
				}
			case *parse.WithNode:
				walk(x.List, append(append([]Guard{}, g...), Guard{"with", x.Pipe.String(), x.Pos}))
				if x.ElseList != nil {
					walk(x.ElseList, append(append([]Guard{}, g...), Guard{"else-with", x.Pipe.String(), x.Pos}))
				}
			case *parse.RangeNode:
				walk(x.List, append(append([]Guard{}, g...), Guard{"range", x.Pipe.String(), x.Pos}))
				if x.ElseList != nil {
					walk(x.ElseList, append(append([]Guard{}, g...), Guard{"else", x.Pipe.String(), x.Pos}))
				}
			case *parse.TemplateNode:
				pipe := ""
				if x.Pipe != nil {
					pipe = x.Pipe.String()
				}
				l.Calls = append(l.Calls, TemplateCall{x.Name, pipe, append([]Guard{}, g...), b.Len(), x.Pos})
				emit(open+"template "+x.Name+" "+pipe+close_, g, x, x.Pos)
			}
		}
	}
	walk(t.Tree.Root, nil)
	l.Text = b.String()
	return l
}

// Occ is one regexp match in the linear text.
type Occ struct {
	Start, End int
	Match      []string
	Guards     []Guard
	Pos        parse.Pos
}

func (l *Linear) guardsAt(off int) ([]Guard, parse.Pos) {
	i := sort.Search(len(l.spans), func(i int) bool { return l.spans[i].end > off })
	if i < len(l.spans) {
		return l.spans[i].guards, l.spans[i].pos
	}
	return nil, 0
}

// Find returns all matches of re with the guards in force at the match start.
func (l *Linear) Find(re *regexp.Regexp) []Occ {
	var out []Occ
	for _, m := range re.FindAllStringSubmatchIndex(l.Text, -1) {
		g, pos := l.guardsAt(m[0])
		var sub []string
		for i := 0; i+1 < len(m); i += 2 {
			if m[i] >= 0 {
				sub = append(sub, l.Text[m[i]:m[i+1]])
			} else {
				sub = append(sub, "")
			}
		}
		out = append(out, Occ{m[0], m[1], sub, g, pos})
	}
	return out
}

// CallArgs returns the text of the parenthesised argument list that starts at off (the
// offset of the opening parenthesis), with nested parentheses balanced.
func (l *Linear) CallArgs(off int) string {
	depth := 0
	for i := off; i < len(l.Text); i++ {
		switch l.Text[i] {
		case '(':
			depth++
		case ')':
			depth--
			if depth == 0 {
				return l.Text[off+1 : i]
			}
		}
	}
	return ""
}

var placeholderRx = regexp.MustCompile(open + `([^` + close_ + `]*)` + close_)

// Placeholders lists the pipelines of the actions inside a piece of linear text.
func Placeholders(s string) []string {
	var out []string
	for _, m := range placeholderRx.FindAllStringSubmatch(s, -1) {
		out = append(out, m[1])
	}
	return out
}

var fieldRx = regexp.MustCompile(`\.([A-Z][A-Za-z0-9]*)`)

// FieldsIn lists the field names (.Name components) mentioned in a pipeline string.
func FieldsIn(pipe string) []string {
	var out []string
	for _, m := range fieldRx.FindAllStringSubmatch(pipe, -1) {
		out = append(out, m[1])
	}
	return out
}

// GuardMentions reports whether some enclosing `if`/`with` (positive branch) mentions the field.
func GuardMentions(gs []Guard, field string) bool {
	for _, g := range gs {
		if g.Kind != "if" && g.Kind != "with" {
			continue
		}
		for _, f := range FieldsIn(g.Pipe) {
			if f == field {
				return true
			}
		}
	}
	return false
}

// GuardString renders a guard stack.
func GuardString(gs []Guard) string {
	var s []string
	for _, g := range gs {
		s = append(s, g.Kind+" "+g.Pipe)
	}
	return strings.Join(s, " › ")
}

// Polarity of the mentions of a field in a pipeline string: +1 when some mention is under an
// even number of `not` heads, -1 when under an odd number; both may hold.
func pipePolarity(pipe, field string) (pos, neg bool) {
	rx := regexp.MustCompile(`\.` + regexp.QuoteMeta(field) + `\b`)
	for _, m := range rx.FindAllStringIndex(pipe, -1) {
		// a longer selector chain like .Child.Required still counts as a mention of Required
		nots := 0
		depth := 0
		// walk back collecting the heads of the enclosing groups
		for i := m[0] - 1; i >= -1; i-- {
			if i == -1 {
				if depth == 0 && headIsNot(pipe) {
					nots++
				}
				break
			}
			switch pipe[i] {
			case ')':
				depth++
			case '(':
				if depth > 0 {
					depth--
				} else if headIsNot(pipe[i+1:]) {
					nots++
				}
			}
		}
		if nots%2 == 0 {
			pos = true
		} else {
			neg = true
		}
	}
	return
}

func headIsNot(s string) bool {
	s = strings.TrimLeft(s, " ")
	return strings.HasPrefix(s, "not ") || strings.HasPrefix(s, "not(")
}

// GuardHas reports whether the guard stack constrains field with the given polarity:
// +1 the field is tested positively by an enclosing `if`/`with` (or negatively by the `else`
// of a guard that is a single test or a disjunction), -1 the converse, 0 any mention.
func GuardHas(gs []Guard, field string, pol int) bool {
	for _, g := range gs {
		pos, neg := pipePolarity(g.Pipe, field)
		if !pos && !neg {
			continue
		}
		if pol == 0 {
			return true
		}
		switch g.Kind {
		case "if", "with":
			if pol > 0 && pos || pol < 0 && neg {
				return true
			}
		case "else", "else-with":
			p := strings.TrimSpace(g.Pipe)
			simple := !strings.HasPrefix(p, "and ") && !strings.HasPrefix(p, "eq ") && !strings.HasPrefix(p, "ne ")
			if simple && (pol > 0 && neg || pol < 0 && pos) {
				return true
			}
		}
	}
	return false
}

// GuardsAt exposes the guard stack in force at an offset of the linear text.
func (l *Linear) GuardsAt(off int) []Guard {
	g, _ := l.guardsAt(off)
	return g
}

// PosAt gives the template position of the node covering an offset.
func (l *Linear) PosAt(off int) parse.Pos {
	_, p := l.guardsAt(off)
	return p
}

// ---- boolean reading of guard stacks (small-model evaluation) ----

// Cond is a parsed template condition: and/or/not over opaque atoms.
type Cond struct {
	Op   string // "and", "or", "not", "atom", "true"
	Atom string
	Args []*Cond
}

// ParseCond reads a pipeline such as `and .A (not .B) (or .C (eq .D "x"))`. Anything that is
// not and/or/not becomes an opaque atom named by its text.
func ParseCond(pipe string) *Cond {
	toks := tokenizeCond(pipe)
	c, _ := parseCondList(toks, 0, len(toks))
	return c
}

func tokenizeCond(s string) []string {
	var toks []string
	i := 0
	for i < len(s) {
		switch {
		case s[i] == ' ' || s[i] == '\t' || s[i] == '\n':
			i++
		case s[i] == '(' || s[i] == ')':
			toks = append(toks, string(s[i]))
			i++
		case s[i] == '"' || s[i] == '`':
			q := s[i]
			j := i + 1
			for j < len(s) && s[j] != q {
				if s[j] == '\\' && q == '"' {
					j++
				}
				j++
			}
			if j < len(s) {
				j++
			}
			toks = append(toks, s[i:j])
			i = j
		default:
			j := i
			for j < len(s) && s[j] != ' ' && s[j] != '(' && s[j] != ')' && s[j] != '\t' && s[j] != '\n' {
				j++
			}
			toks = append(toks, s[i:j])
			i = j
		}
	}
	return toks
}

// parseCondList parses toks[lo:hi] as one expression (head + args or a single term).
func parseCondList(toks []string, lo, hi int) (*Cond, int) {
	// split into top-level terms
	var terms [][2]int
	for i := lo; i < hi; {
		if toks[i] == "(" {
			d, j := 1, i+1
			for j < hi && d > 0 {
				if toks[j] == "(" {
					d++
				} else if toks[j] == ")" {
					d--
				}
				j++
			}
			terms = append(terms, [2]int{i, j})
			i = j
		} else {
			terms = append(terms, [2]int{i, i + 1})
			i++
		}
	}
	if len(terms) == 0 {
		return &Cond{Op: "true"}, hi
	}
	sub := func(t [2]int) *Cond {
		if toks[t[0]] == "(" {
			c, _ := parseCondList(toks, t[0]+1, t[1]-1)
			return c
		}
		return &Cond{Op: "atom", Atom: toks[t[0]]}
	}
	head := toks[terms[0][0]]
	if len(terms) > 1 && (head == "and" || head == "or" || head == "not") {
		c := &Cond{Op: head}
		for _, t := range terms[1:] {
			c.Args = append(c.Args, sub(t))
		}
		return c, hi
	}
	if len(terms) == 1 {
		return sub(terms[0]), hi
	}
	// a function call (eq .A "x", stringContains …): opaque
	return &Cond{Op: "atom", Atom: strings.Join(toks[lo:hi], " ")}, hi
}

// Atoms collects the atom names.
func (c *Cond) Atoms(out map[string]bool) {
	if c == nil {
		return
	}
	if c.Op == "atom" {
		out[c.Atom] = true
	}
	for _, a := range c.Args {
		a.Atoms(out)
	}
}

// Eval evaluates under env (missing atoms are false).
func (c *Cond) Eval(env map[string]bool) bool {
	switch c.Op {
	case "true":
		return true
	case "atom":
		return env[c.Atom]
	case "not":
		return len(c.Args) == 1 && !c.Args[0].Eval(env)
	case "and":
		for _, a := range c.Args {
			if !a.Eval(env) {
				return false
			}
		}
		return true
	case "or":
		for _, a := range c.Args {
			if a.Eval(env) {
				return true
			}
		}
		return false
	}
	return false
}

// StackCond is the conjunction a guard stack stands for: `if`/`with` contribute their
// condition, `else` its negation, `range` nothing.
func StackCond(gs []Guard) *Cond {
	c := &Cond{Op: "and"}
	for _, g := range gs {
		switch g.Kind {
		case "if":
			c.Args = append(c.Args, ParseCond(g.Pipe))
		case "else":
			c.Args = append(c.Args, &Cond{Op: "not", Args: []*Cond{ParseCond(g.Pipe)}})
		}
	}
	return c
}
