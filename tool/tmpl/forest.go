// Package tmpl analyses go-swagger's code-generation templates as source: parse trees from
// text/template/parse, never executed.
package tmpl

import (
	"fmt"
	"go/ast"
	"os"
	"path/filepath"
	"sort"
	"strconv"
	"strings"
	"text/template/parse"

	"github.com/go-openapi/swag"
	"golang.org/x/tools/go/packages"

	"verif/tool/load"
)

// Tree is one named template (a file's top level or a {{ define }}).
type Tree struct {
	Name  string
	Asset string // registered asset name, e.g. "server/parameter.gotmpl"
	File  string // path relative to the repository
	Src   string
	Tree  *parse.Tree
}

func (t *Tree) Line(pos parse.Pos) int {
	p := int(pos)
	if p > len(t.Src) {
		p = len(t.Src)
	}
	return 1 + strings.Count(t.Src[:p], "\n")
}

func (t *Tree) PosStr(pos parse.Pos) string { return fmt.Sprintf("%s:%d", t.File, t.Line(pos)) }

// Forest is the set of templates the default repository registers.
type Forest struct {
	Trees      map[string]*Tree
	Assets     map[string]string // asset name -> repository-relative file
	Unlisted   []string          // non-contrib template files on disk that defaultAssets does not register
	Missing    []string          // registered assets with no file
	ParseErrs  []string
	Duplicates []string // template names defined twice
	Protected  map[string]bool
}

func (f *Forest) Names() []string {
	var n []string
	for k := range f.Trees {
		n = append(n, k)
	}
	sort.Strings(n)
	return n
}

// AssetTable extracts defaultAssets(): registered name -> embedded path.
func AssetTable(gen *packages.Package) (map[string]string, error) {
	fd := load.FuncDecl(gen, "defaultAssets")
	if fd == nil {
		return nil, fmt.Errorf("generator.defaultAssets not found")
	}
	out := map[string]string{}
	var bad error
	ast.Inspect(fd.Body, func(n ast.Node) bool {
		kv, ok := n.(*ast.KeyValueExpr)
		if !ok {
			return true
		}
		k, ok := kv.Key.(*ast.BasicLit)
		if !ok {
			return true
		}
		call, ok := kv.Value.(*ast.CallExpr)
		if !ok || len(call.Args) != 1 {
			bad = fmt.Errorf("defaultAssets: value of %s is not MustAsset(<literal>)", k.Value)
			return true
		}
		a, ok := call.Args[0].(*ast.BasicLit)
		if !ok {
			bad = fmt.Errorf("defaultAssets: value of %s is not MustAsset(<literal>)", k.Value)
			return true
		}
		ks, _ := strconv.Unquote(k.Value)
		as, _ := strconv.Unquote(a.Value)
		out[ks] = as
		return true
	})
	if bad != nil {
		return nil, bad
	}
	if len(out) == 0 {
		return nil, fmt.Errorf("defaultAssets: no rows extracted")
	}
	return out, nil
}

// StringBoolTable extracts a func returning map[string]bool literal (defaultProtectedTemplates).
func StringBoolTable(gen *packages.Package, fn string) map[string]bool {
	fd := load.FuncDecl(gen, fn)
	out := map[string]bool{}
	if fd == nil {
		return out
	}
	ast.Inspect(fd.Body, func(n ast.Node) bool {
		kv, ok := n.(*ast.KeyValueExpr)
		if !ok {
			return true
		}
		if k, ok := kv.Key.(*ast.BasicLit); ok {
			ks, _ := strconv.Unquote(k.Value)
			if id, ok := kv.Value.(*ast.Ident); ok && id.Name == "true" {
				out[ks] = true
			}
		}
		return true
	})
	return out
}

// LoadForest parses every registered template. contrib, when non-empty, overlays the files
// of generator/templates/contrib/<contrib>/ the way Repository.LoadContrib does.
// overlay maps repository-relative file names to replacement contents (mutant self-test).
func LoadForest(repo string, gen *packages.Package, contrib string, overlay map[string]string) (*Forest, error) {
	assets, err := AssetTable(gen)
	if err != nil {
		return nil, err
	}
	f := &Forest{Trees: map[string]*Tree{}, Assets: map[string]string{}, Protected: StringBoolTable(gen, "defaultProtectedTemplates")}
	gdir := filepath.Join(repo, "generator")
	read := func(rel string) ([]byte, error) {
		if s, ok := overlay[rel]; ok {
			return []byte(s), nil
		}
		return os.ReadFile(filepath.Join(repo, rel))
	}
	var names []string
	for k := range assets {
		names = append(names, k)
	}
	sort.Strings(names)
	registered := map[string]bool{}
	add := func(asset, rel string, override bool) {
		b, err := read(rel)
		if err != nil {
			f.Missing = append(f.Missing, asset+" -> "+rel)
			return
		}
		name := swag.ToJSONName(strings.TrimSuffix(asset, ".gotmpl"))
		t := parse.New(name)
		t.Mode = parse.SkipFuncCheck
		trees := map[string]*parse.Tree{}
		if _, err := t.Parse(string(b), "", "", trees); err != nil {
			f.ParseErrs = append(f.ParseErrs, fmt.Sprintf("%s: %v", rel, err))
			return
		}
		var tn []string
		for n := range trees {
			tn = append(tn, n)
		}
		sort.Strings(tn)
		for _, n := range tn {
			tr := trees[n]
			if tr.Root == nil {
				continue
			}
			if old, dup := f.Trees[n]; dup && !override {
				// text/template: the top-level tree of a file holding only defines is empty; only
				// report real redefinitions
				if !emptyTree(tr) && !emptyTree(old.Tree) {
					f.Duplicates = append(f.Duplicates, fmt.Sprintf("%s (in %s and %s)", n, old.File, rel))
				}
				if emptyTree(tr) {
					continue
				}
			}
			f.Trees[n] = &Tree{Name: n, Asset: asset, File: rel, Src: string(b), Tree: tr}
		}
	}
	for _, asset := range names {
		rel := filepath.Join("generator", assets[asset])
		registered[rel] = true
		f.Assets[asset] = rel
		add(asset, rel, false)
	}
	// files on disk that are not registered
	filepath.Walk(filepath.Join(gdir, "templates"), func(p string, info os.FileInfo, err error) error {
		if err != nil || info.IsDir() || !strings.HasSuffix(p, ".gotmpl") {
			return nil
		}
		rel, _ := filepath.Rel(repo, p)
		if strings.Contains(rel, "/contrib/") {
			return nil
		}
		if !registered[rel] {
			f.Unlisted = append(f.Unlisted, rel)
		}
		return nil
	})
	if contrib != "" {
		base := filepath.Join(gdir, "templates", "contrib", contrib)
		n := 0
		filepath.Walk(base, func(p string, info os.FileInfo, err error) error {
			if err != nil || info.IsDir() || !strings.HasSuffix(p, ".gotmpl") {
				return nil
			}
			rel, _ := filepath.Rel(repo, p)
			target, _ := filepath.Rel(base, p)
			add(target, rel, true)
			n++
			return nil
		})
		if n == 0 {
			return nil, fmt.Errorf("contrib %q has no templates", contrib)
		}
	}
	return f, nil
}

func emptyTree(t *parse.Tree) bool {
	if t == nil || t.Root == nil {
		return true
	}
	for _, n := range t.Root.Nodes {
		if tx, ok := n.(*parse.TextNode); ok && strings.TrimSpace(string(tx.Text)) == "" {
			continue
		}
		return false
	}
	return true
}
