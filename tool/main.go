// gsv — static verification of go-swagger properties C01–C19.
//
//	gsv check <id> [--tier quick|thorough] [--replay <file>]
//	gsv list
package main

import (
	"encoding/json"
	"flag"
	"fmt"
	"os"
	"os/exec"
	"path/filepath"
	"regexp"
	"runtime/debug"
	"sort"
	"strings"

	"verif/tool/core"
	"verif/tool/patch"
	"verif/tool/props"
)

func main() {
	if len(os.Args) < 2 {
		usage()
	}
	switch os.Args[1] {
	case "list":
		var ids []string
		for id := range props.Registry {
			ids = append(ids, id)
		}
		sort.Strings(ids)
		for _, id := range ids {
			fmt.Println(id)
		}
	case "check":
		if len(os.Args) < 3 {
			usage()
		}
		id := os.Args[2]
		fs := flag.NewFlagSet("check", flag.ExitOnError)
		tier := fs.String("tier", envOr("VERIF_TIER", "quick"), "quick|thorough")
		replay := fs.String("replay", "", "replay a violation file")
		patchFile := fs.String("patch", "", "analyse /repo with this unified diff applied in memory (self-test; writes no evidence)")
		fs.Parse(os.Args[3:])
		if *tier != "quick" && *tier != "thorough" {
			*tier = "quick"
		}
		f, ok := props.Registry[id]
		if !ok {
			fmt.Printf("unknown property %q\n", id)
			os.Exit(2)
		}
		run := core.NewRun(id, *tier)
		run.SetReplay(*replay)
		ctx := props.NewCtx(run)
		if *patchFile != "" {
			os.Setenv("VERIF_NO_EVIDENCE", "1")
			files, err := patch.Apply(run.RepoDir, *patchFile)
			if err != nil {
				fmt.Printf("STALE: %v\n", err)
				os.Exit(3)
			}
			ctx.Overlay = map[string][]byte{}
			ctx.TmplOverlay = map[string]string{}
			for rel, content := range files {
				if strings.HasSuffix(rel, ".go") {
					ctx.Overlay[filepath.Join(run.RepoDir, rel)] = []byte(content)
				} else {
					ctx.TmplOverlay[rel] = content
					// a patch to a contributed template set is analysed with that set overlaid
					if i := strings.Index(rel, "templates/contrib/"); i >= 0 {
						rest := rel[i+len("templates/contrib/"):]
						if j := strings.IndexByte(rest, '/'); j > 0 {
							ctx.Contrib = rest[:j]
						}
					}
				}
			}
		}
		code := func() (code int) {
			defer func() {
				if r := recover(); r != nil {
					// an analyser panic is a failure of the check, never a silent pass
					fmt.Printf("ANALYSER PANIC: %v\n%s\n", r, debug.Stack())
					run.Rule("analyser", "the analyser itself must not crash", 0)
					run.Unk("analyser", "panic", "", fmt.Sprint(r))
					code = run.Finish()
					if code == 0 {
						code = 1
					}
				}
			}()
			f(ctx)
			if *tier == "thorough" && *patchFile == "" {
				// build variants: the same rules over the packages as built for windows (the
				// repository's only build-tagged files are *_win.go / *_nonwin.go)
				for _, v := range []string{"GOOS=windows"} {
					run.SetVariant(v)
					vctx := props.NewCtx(run)
					vctx.ExtraEnv = []string{v}
					f(vctx)
				}
				// contributed template set: the generic template rules (typing, closure, lexical
				// contexts, placement) over the standard templates overlaid with contrib/stratoscale
				if id == "C01" || id == "C09" || id == "C10" {
					run.SetVariant("template=stratoscale")
					vctx := props.NewCtx(run)
					vctx.Contrib = "stratoscale"
					f(vctx)
				}
				run.SetVariant("")
				if t, ok := props.Thorough[id]; ok {
					t(ctx)
				}
				selfTest(run, id)
			}
			return run.Finish()
		}()
		os.Exit(code)
	case "debug":
		run := core.NewRun("debug", "quick")
		ctx := props.NewCtx(run)
		switch os.Args[2] {
		case "rel":
			props.DumpRel(ctx)
		case "tmpl":
			what := ""
			if len(os.Args) > 3 {
				what = os.Args[3]
			}
			props.DumpTemplates(ctx, what)
		case "order":
			props.DumpOrder(ctx)
		case "panic":
			props.DumpPanic(ctx, os.Args[3])
		}
	default:
		usage()
	}
}

var violatedRx = regexp.MustCompile(`VIOLATED (\S+) ::`)

// selfTest re-runs the check, in a sub-process each, on in-memory mutants of /repo: every
// seeded change kept under /verif/seeded/<id>/ and every hand-written mutant under
// /verif/mutants/<id>/. The outcome is recorded in the evidence; it never changes the exit
// status, which speaks about /repo's tree only.
func selfTest(run *core.Run, id string) {
	type res struct {
		Mutant   string   `json:"mutant"`
		Outcome  string   `json:"outcome"` // detected | undetected | stale
		Rules    []string `json:"rules,omitempty"`
		Expected string   `json:"expected,omitempty"`
	}
	var results []res
	var files []string
	for _, dir := range []string{"seeded", "mutants", "equivalents"} {
		m, _ := filepath.Glob(filepath.Join(run.VerifDir, dir, id, "*", "patch.diff"))
		files = append(files, m...)
		m, _ = filepath.Glob(filepath.Join(run.VerifDir, dir, id, "*.diff"))
		files = append(files, m...)
	}
	sort.Strings(files)
	det, undet, stale, regress, silent, falseAlarms := 0, 0, 0, 0, 0, 0
	for _, f := range files {
		cmd := exec.Command(os.Args[0], "check", id, "--tier", "quick", "--patch", f)
		cmd.Env = append(os.Environ(), "VERIF_NO_EVIDENCE=1")
		out, _ := cmd.CombinedOutput()
		code := 0
		if cmd.ProcessState != nil {
			code = cmd.ProcessState.ExitCode()
		}
		rel, _ := filepath.Rel(run.VerifDir, f)
		r := res{Mutant: rel}
		// expectation recorded when the change was collected
		if b, err := os.ReadFile(filepath.Join(filepath.Dir(f), "meta.json")); err == nil {
			var meta struct {
				Detection struct {
					Detected *bool  `json:"detected"`
					Note     string `json:"note"`
				} `json:"detection"`
			}
			if json.Unmarshal(b, &meta) == nil && meta.Detection.Detected != nil {
				if *meta.Detection.Detected {
					r.Expected = "detected"
				} else {
					r.Expected = "undetected"
				}
			}
		} else if strings.Contains(f, string(filepath.Separator)+"mutants"+string(filepath.Separator)) {
			r.Expected = "detected"
		} else if strings.Contains(f, string(filepath.Separator)+"equivalents"+string(filepath.Separator)) {
			r.Expected = "silent"
		}
		switch code {
		case 3:
			r.Outcome = "stale"
			stale++
		case 1:
			r.Outcome = "detected"
			det++
			seen := map[string]bool{}
			for _, m := range violatedRx.FindAllStringSubmatch(string(out), -1) {
				if !seen[m[1]] {
					seen[m[1]] = true
					r.Rules = append(r.Rules, m[1])
				}
			}
		default:
			r.Outcome = "undetected"
			undet++
		}
		if r.Expected == "silent" {
			// behaviour-preserving variant: the check must stay silent on it
			switch r.Outcome {
			case "detected":
				det--
				falseAlarms++
				r.Outcome = "false alarm"
				fmt.Printf("SELF-TEST FALSE ALARM: the check reports %v on %s, a behaviour-preserving variant of /repo\n", r.Rules, rel)
			case "undetected":
				undet--
				silent++
				r.Outcome = "silent"
			}
		}
		if r.Expected == "detected" && r.Outcome == "undetected" {
			regress++
			fmt.Printf("SELF-TEST REGRESSION: %s was detected when it was collected and is not any more\n", rel)
		}
		results = append(results, r)
	}
	fmt.Printf("self-test: %d variants of /repo analysed in memory: %d breaking ones detected, %d undetected, %d stale (no longer apply), %d regressions; %d behaviour-preserving ones silent, %d false alarms\n", len(files), det, undet, stale, regress, silent, falseAlarms)
	run.Analysed("self-test mutants", len(files))
	run.Analysed("self-test mutants detected", det)
	run.Extra("self_test", map[string]any{"mutants": len(files), "detected": det, "undetected": undet, "stale": stale, "regressions": regress, "equivalents_silent": silent, "false_alarms": falseAlarms, "results": results,
		"meaning": "each mutant is a source change that breaks the property while compiling and passing the test-suite (seeded changes kept under /verif/seeded, hand-written ones under /verif/mutants); it is applied to /repo's current files in memory (go/packages overlay, template overlay) and the quick rules are re-run on it in a sub-process; undetected mutants with expectation 'undetected' are documented misses or changes neutralised by a later repair; variants under /verif/equivalents are behaviour-preserving edits (local renames) on which the check must stay silent"})
}

func envOr(k, d string) string {
	if v := os.Getenv(k); v != "" {
		return v
	}
	return d
}

func usage() {
	fmt.Println("usage: gsv check <id> [--tier quick|thorough] [--replay file] | gsv list")
	os.Exit(2)
}
