// gsv — static verification of go-swagger properties C01–C19.
//
//	gsv check <id> [--tier quick|thorough] [--replay <file>]
//	gsv list
package main

import (
	"flag"
	"fmt"
	"os"
	"runtime/debug"
	"sort"

	"verif/tool/core"
	"verif/tool/props"
)

func main() {
	if len(os.Args) < 2 {
		usage()
	}
	switch os.Args[1] {
	case "list":
		var ids []string
		for id := range props.Registry {
			ids = append(ids, id)
		}
		sort.Strings(ids)
		for _, id := range ids {
			fmt.Println(id)
		}
	case "check":
		if len(os.Args) < 3 {
			usage()
		}
		id := os.Args[2]
		fs := flag.NewFlagSet("check", flag.ExitOnError)
		tier := fs.String("tier", envOr("VERIF_TIER", "quick"), "quick|thorough")
		replay := fs.String("replay", "", "replay a violation file")
		fs.Parse(os.Args[3:])
		if *tier != "quick" && *tier != "thorough" {
			*tier = "quick"
		}
		f, ok := props.Registry[id]
		if !ok {
			fmt.Printf("unknown property %q\n", id)
			os.Exit(2)
		}
		run := core.NewRun(id, *tier)
		run.SetReplay(*replay)
		ctx := props.NewCtx(run)
		code := func() (code int) {
			defer func() {
				if r := recover(); r != nil {
					// an analyser panic is a failure of the check, never a silent pass
					fmt.Printf("ANALYSER PANIC: %v\n%s\n", r, debug.Stack())
					run.Rule("analyser", "the analyser itself must not crash", 0)
					run.Unk("analyser", "panic", "", fmt.Sprint(r))
					code = run.Finish()
					if code == 0 {
						code = 1
					}
				}
			}()
			f(ctx)
			if *tier == "thorough" {
				if t, ok := props.Thorough[id]; ok {
					t(ctx)
				}
			}
			return run.Finish()
		}()
		os.Exit(code)
	case "debug":
		run := core.NewRun("debug", "quick")
		ctx := props.NewCtx(run)
		switch os.Args[2] {
		case "rel":
			props.DumpRel(ctx)
		case "tmpl":
			what := ""
			if len(os.Args) > 3 {
				what = os.Args[3]
			}
			props.DumpTemplates(ctx, what)
		case "order":
			props.DumpOrder(ctx)
		case "panic":
			props.DumpPanic(ctx, os.Args[3])
		}
	default:
		usage()
	}
}

func envOr(k, d string) string {
	if v := os.Getenv(k); v != "" {
		return v
	}
	return d
}

func usage() {
	fmt.Println("usage: gsv check <id> [--tier quick|thorough] [--replay file] | gsv list")
	os.Exit(2)
}
