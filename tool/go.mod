module verif/tool

go 1.23

require (
	github.com/go-openapi/swag v0.23.0
	golang.org/x/tools v0.29.0
)

require (
	github.com/josharian/intern v1.0.0 // indirect
	github.com/mailru/easyjson v0.7.7 // indirect
	golang.org/x/mod v0.22.0 // indirect
	golang.org/x/sync v0.10.0 // indirect
	gopkg.in/yaml.v3 v3.0.1 // indirect
)
