// Package load loads go-swagger's Go packages (type-checked, from /repo's current working
// tree) and its code-generation templates (parsed, never executed).
package load

import (
	"fmt"
	"go/ast"
	"go/token"
	"go/types"
	"os"
	"os/exec"
	"sort"
	"strings"

	"golang.org/x/tools/go/packages"
)

const Mod = "github.com/go-swagger/go-swagger"

const (
	PkgGenerator = Mod + "/generator"
	PkgCodescan  = Mod + "/codescan"
	PkgDiff      = Mod + "/cmd/swagger/commands/diff"
	PkgCommands  = Mod + "/cmd/swagger/commands"
	PkgGenerate  = Mod + "/cmd/swagger/commands/generate"
	PkgInitCmd   = Mod + "/cmd/swagger/commands/initcmd"
)

// Program is a set of loaded packages sharing one FileSet.
type Program struct {
	Fset    *token.FileSet
	Roots   []*packages.Package
	ByPath  map[string]*packages.Package
	RepoDir string
}

// Env returns the environment for the `go list` the loader spawns inside the repository:
// offline, never rewriting go.mod / go.sum.
func Env(extra ...string) []string {
	var env []string
	for _, e := range os.Environ() {
		k := e
		if i := strings.IndexByte(e, '='); i >= 0 {
			k = e[:i]
		}
		switch k {
		case "GOFLAGS", "GOPROXY", "GOSUMDB", "GOTOOLCHAIN", "GOWORK", "GOOS", "GOARCH":
			continue
		}
		env = append(env, e)
	}
	env = append(env, "GOFLAGS=-mod=readonly", "GOPROXY=off", "GOSUMDB=off", "GOTOOLCHAIN=local", "GOWORK=off")
	env = append(env, extra...)
	return env
}

// Go loads the given package patterns (relative to the repository root, e.g. "./generator")
// with full syntax and type information for the packages AND their dependencies' types.
// deps=true also keeps syntax of dependencies (needed to look into go-openapi sources).
func Go(repo string, deps bool, extraEnv []string, overlay map[string][]byte, patterns ...string) (*Program, error) {
	mode := packages.NeedName | packages.NeedFiles | packages.NeedCompiledGoFiles | packages.NeedSyntax |
		packages.NeedTypes | packages.NeedTypesInfo | packages.NeedImports | packages.NeedTypesSizes | packages.NeedModule
	if deps {
		mode |= packages.NeedDeps
	}
	// go.sum must not be rewritten by the loader: remember and restore it if `go list` touches it.
	sumPath := repo + "/go.sum"
	modPath := repo + "/go.mod"
	sum0, _ := os.ReadFile(sumPath)
	mod0, _ := os.ReadFile(modPath)
	defer func() {
		if b, err := os.ReadFile(sumPath); err == nil && sum0 != nil && string(b) != string(sum0) {
			os.WriteFile(sumPath, sum0, 0o644)
		}
		if b, err := os.ReadFile(modPath); err == nil && mod0 != nil && string(b) != string(mod0) {
			os.WriteFile(modPath, mod0, 0o644)
		}
	}()
	cfg := &packages.Config{Mode: mode, Dir: repo, Env: Env(extraEnv...), Tests: false, Overlay: overlay}
	pkgs, err := packages.Load(cfg, patterns...)
	if err != nil {
		return nil, err
	}
	if len(pkgs) == 0 {
		return nil, fmt.Errorf("no packages matched %v", patterns)
	}
	p := &Program{Roots: pkgs, ByPath: map[string]*packages.Package{}, RepoDir: repo}
	var errs []string
	packages.Visit(pkgs, nil, func(pk *packages.Package) {
		p.ByPath[pk.PkgPath] = pk
		if p.Fset == nil && pk.Fset != nil {
			p.Fset = pk.Fset
		}
		if strings.HasPrefix(pk.PkgPath, Mod) {
			for _, e := range pk.Errors {
				errs = append(errs, e.Error())
			}
		}
	})
	for _, pk := range pkgs {
		p.ByPath[pk.PkgPath] = pk
		if pk.Fset != nil {
			p.Fset = pk.Fset
		}
	}
	if len(errs) > 0 {
		sort.Strings(errs)
		if len(errs) > 8 {
			errs = errs[:8]
		}
		return nil, fmt.Errorf("load/type errors in repository packages: %s", strings.Join(errs, "; "))
	}
	return p, nil
}

func (p *Program) Pkg(path string) *packages.Package { return p.ByPath[path] }

// Pos renders a position as file:line with the repository prefix stripped.
func (p *Program) Pos(pos token.Pos) string {
	if !pos.IsValid() {
		return ""
	}
	ps := p.Fset.Position(pos)
	f := strings.TrimPrefix(ps.Filename, p.RepoDir+"/")
	return fmt.Sprintf("%s:%d", f, ps.Line)
}

// FuncDecl finds a top-level function or method declaration. name is "Func" or
// "Recv.Method" (pointer-ness of the receiver ignored).
func FuncDecl(pk *packages.Package, name string) *ast.FuncDecl {
	recv, fn := "", name
	if i := strings.IndexByte(name, '.'); i >= 0 {
		recv, fn = name[:i], name[i+1:]
	}
	for _, f := range pk.Syntax {
		for _, d := range f.Decls {
			fd, ok := d.(*ast.FuncDecl)
			if !ok || fd.Name.Name != fn {
				continue
			}
			if recv == "" && fd.Recv == nil {
				return fd
			}
			if recv != "" && fd.Recv != nil && len(fd.Recv.List) == 1 && RecvName(fd) == recv {
				return fd
			}
		}
	}
	return nil
}

// RecvName returns the receiver's base type name of a method declaration ("" for functions).
func RecvName(fd *ast.FuncDecl) string {
	if fd.Recv == nil || len(fd.Recv.List) == 0 {
		return ""
	}
	t := fd.Recv.List[0].Type
	for {
		switch x := t.(type) {
		case *ast.StarExpr:
			t = x.X
			continue
		case *ast.IndexExpr:
			t = x.X
			continue
		case *ast.Ident:
			return x.Name
		}
		return ""
	}
}

// FuncName renders "Recv.Name" or "Name".
func FuncName(fd *ast.FuncDecl) string {
	if r := RecvName(fd); r != "" {
		return r + "." + fd.Name.Name
	}
	return fd.Name.Name
}

// AllFuncs returns every function declaration with a body in the package, sorted by name.
func AllFuncs(pk *packages.Package) []*ast.FuncDecl {
	var out []*ast.FuncDecl
	for _, f := range pk.Syntax {
		for _, d := range f.Decls {
			if fd, ok := d.(*ast.FuncDecl); ok && fd.Body != nil {
				out = append(out, fd)
			}
		}
	}
	sort.SliceStable(out, func(i, j int) bool { return FuncName(out[i]) < FuncName(out[j]) })
	return out
}

// PkgVarValue finds the initialiser expression of a package-level variable.
func PkgVarValue(pk *packages.Package, name string) ast.Expr {
	for _, f := range pk.Syntax {
		for _, d := range f.Decls {
			gd, ok := d.(*ast.GenDecl)
			if !ok || gd.Tok != token.VAR {
				continue
			}
			for _, s := range gd.Specs {
				vs := s.(*ast.ValueSpec)
				for i, n := range vs.Names {
					if n.Name == name && i < len(vs.Values) {
						return vs.Values[i]
					}
				}
			}
		}
	}
	return nil
}

// ConstsOfType lists the package-level constants of the named type, in declaration order.
func ConstsOfType(pk *packages.Package, typeName string) []*types.Const {
	var out []*types.Const
	scope := pk.Types.Scope()
	tn, _ := scope.Lookup(typeName).(*types.TypeName)
	if tn == nil {
		return nil
	}
	for _, n := range scope.Names() {
		if c, ok := scope.Lookup(n).(*types.Const); ok && types.Identical(c.Type(), tn.Type()) {
			out = append(out, c)
		}
	}
	sort.SliceStable(out, func(i, j int) bool { return out[i].Pos() < out[j].Pos() })
	return out
}

// GoRoot returns GOROOT of the toolchain used for loading.
func GoRoot() (string, error) {
	out, err := exec.Command("go", "env", "GOROOT").Output()
	if err != nil {
		return "", err
	}
	return strings.TrimSpace(string(out)), nil
}

// RecvNameOf gives "T." for a method of T or *T, "" for a function.
func RecvNameOf(fn *types.Func) string {
	sig, ok := fn.Type().(*types.Signature)
	if !ok || sig.Recv() == nil {
		return ""
	}
	t := sig.Recv().Type()
	if p, ok := t.(*types.Pointer); ok {
		t = p.Elem()
	}
	if n, ok := t.(*types.Named); ok {
		return n.Obj().Name() + "."
	}
	return ""
}

// PackageNames lists (import path → package name) for the packages matched by the patterns and
// everything they depend on, without parsing or type-checking them.
func PackageNames(repo string, patterns ...string) (map[string]string, error) {
	sumPath, modPath := repo+"/go.sum", repo+"/go.mod"
	sum0, _ := os.ReadFile(sumPath)
	mod0, _ := os.ReadFile(modPath)
	defer func() {
		if b, err := os.ReadFile(sumPath); err == nil && sum0 != nil && string(b) != string(sum0) {
			os.WriteFile(sumPath, sum0, 0o644)
		}
		if b, err := os.ReadFile(modPath); err == nil && mod0 != nil && string(b) != string(mod0) {
			os.WriteFile(modPath, mod0, 0o644)
		}
	}()
	cfg := &packages.Config{Mode: packages.NeedName | packages.NeedImports | packages.NeedDeps, Dir: repo, Env: Env(), Tests: false}
	pkgs, err := packages.Load(cfg, patterns...)
	if err != nil {
		return nil, err
	}
	out := map[string]string{}
	packages.Visit(pkgs, nil, func(pk *packages.Package) {
		if pk.Name != "" {
			out[pk.PkgPath] = pk.Name
		}
	})
	return out, nil
}
