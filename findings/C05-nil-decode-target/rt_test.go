package zzap

import (
	"encoding/json"
	"testing"

	"github.com/go-swagger/go-swagger/zz_ap/models"
)

func TestRT(t *testing.T) {
	var b models.Bag
	in := `{"name":"x","first":{"n":1}}`
	if err := json.Unmarshal([]byte(in), &b); err != nil {
		t.Fatal(err)
	}
	out, _ := json.Marshal(b)
	if string(out) != in {
		t.Fatalf("got %s", out)
	}
}
