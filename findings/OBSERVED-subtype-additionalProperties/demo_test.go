package gen_c05c

import (
	"encoding/json"
	"testing"

	"github.com/go-swagger/go-swagger/gen_c05c/models"
)

func TestDogExtra(t *testing.T) {
	var d models.Dog
	in := `{"petType":"Dog","name":"rex","pack":3,"color":"brown"}`
	if err := json.Unmarshal([]byte(in), &d); err != nil {
		t.Fatalf("valid document rejected: %v", err)
	}
	out, _ := json.Marshal(&d)
	t.Logf("%+v -> %s", d, out)
	var m map[string]interface{}
	if err := json.Unmarshal(out, &m); err != nil {
		t.Fatal(err)
	}
	if m["color"] != "brown" || m["name"] != "rex" || m["pack"] != float64(3) {
		t.Fatalf("lost: %s", out)
	}
	// count occurrences of "name"
	n := 0
	for i := 0; i+6 <= len(out); i++ {
		if string(out[i:i+6]) == `"name"` {
			n++
		}
	}
	if n != 1 {
		t.Fatalf("name written %d times: %s", n, out)
	}
}
