package gen_demo2

import (
	"net/http/httptest"
	"net/url"
	"testing"

	"github.com/go-openapi/loads"
	"github.com/go-openapi/runtime/middleware"
	"github.com/go-openapi/swag"

	apiclient "github.com/go-swagger/go-swagger/gen_demo2/client"
	cops "github.com/go-swagger/go-swagger/gen_demo2/client/operations"
	"github.com/go-swagger/go-swagger/gen_demo2/models"
	"github.com/go-swagger/go-swagger/gen_demo2/restapi"
	sops "github.com/go-swagger/go-swagger/gen_demo2/restapi/operations"
)

func setup(t *testing.T, configure func(api *sops.Interop2API)) (*apiclient.Interop2, func()) {
	doc, err := loads.Embedded(restapi.SwaggerJSON, restapi.FlatSwaggerJSON)
	if err != nil {
		t.Fatal(err)
	}
	api := sops.NewInterop2API(doc)
	api.Logger = t.Logf
	configure(api)
	srv := httptest.NewServer(api.Serve(nil))
	u, _ := url.Parse(srv.URL)
	cli := apiclient.NewHTTPClientWithConfig(nil, apiclient.DefaultTransportConfig().WithHost(u.Host).WithSchemes([]string{"http"}))
	return cli, srv.Close
}

func TestJSON(t *testing.T) {
	var got sops.PostJSONParams
	cli, done := setup(t, func(api *sops.Interop2API) {
		api.PostJSONHandler = sops.PostJSONHandlerFunc(func(p sops.PostJSONParams) middleware.Responder {
			got = p
			return sops.NewPostJSONOK().WithPayload(p.Body)
		})
	})
	defer done()
	ok, err := cli.Operations.PostJSON(cops.NewPostJSONParams().WithBody(&models.Item{Name: "x"}).WithID(swag.Int64(3)))
	if err != nil {
		t.Fatal(err)
	}
	t.Logf("%+v %+v", got.Body, ok.Payload)
}

func TestBoth(t *testing.T) {
	var got sops.BothParams
	cli, done := setup(t, func(api *sops.Interop2API) {
		api.BothHandler = sops.BothHandlerFunc(func(p sops.BothParams) middleware.Responder {
			got = p
			return sops.NewBothOK()
		})
	})
	defer done()
	_, err := cli.Operations.Both(cops.NewBothParams().WithPathID("p").WithQueryID(swag.String("q")).WithFormDataID(swag.String("f")).WithHeaderID(swag.String("h")))
	if err != nil {
		t.Fatal(err)
	}
	t.Logf("path=%v query=%v form=%v header=%v", got.PathID, *got.QueryID, *got.FormDataID, *got.HeaderID)
	if *got.FormDataID != "f" {
		t.Errorf("form param got %q", *got.FormDataID)
	}
}
