package gen_demo5

import (
	"bytes"
	"io"
	"net/http/httptest"
	"net/url"
	"testing"
	"time"

	"github.com/go-openapi/loads"
	"github.com/go-openapi/runtime/middleware"
	"github.com/go-openapi/strfmt"

	apiclient "github.com/go-swagger/go-swagger/gen_demo5/client"
	cops "github.com/go-swagger/go-swagger/gen_demo5/client/operations"
	"github.com/go-swagger/go-swagger/gen_demo5/restapi"
	sops "github.com/go-swagger/go-swagger/gen_demo5/restapi/operations"
)

func setup(t *testing.T, configure func(api *sops.ProbeAPI)) (*apiclient.Probe, func()) {
	doc, err := loads.Embedded(restapi.SwaggerJSON, restapi.FlatSwaggerJSON)
	if err != nil {
		t.Fatal(err)
	}
	api := sops.NewProbeAPI(doc)
	api.Logger = t.Logf
	configure(api)
	srv := httptest.NewServer(api.Serve(nil))
	u, _ := url.Parse(srv.URL)
	cli := apiclient.NewHTTPClientWithConfig(nil, apiclient.DefaultTransportConfig().WithHost(u.Host).WithSchemes([]string{"http"}))
	return cli, srv.Close
}

func TestDaysHeader(t *testing.T) {
	defer func() {
		if r := recover(); r != nil {
			t.Errorf("panic: %v", r)
		}
	}()
	d := strfmt.Date(time.Date(2020, 1, 2, 0, 0, 0, 0, time.UTC))
	var gotWords []string
	cli, done := setup(t, func(api *sops.ProbeAPI) {
		api.GetDaysHandler = sops.GetDaysHandlerFunc(func(p sops.GetDaysParams) middleware.Responder {
			gotWords = p.Words
			return sops.NewGetDaysOK().WithXDays([]strfmt.Date{d, d}).WithXWords([]string{"a", "", " b "})
		})
	})
	defer done()
	ok, err := cli.Operations.GetDays(cops.NewGetDaysParams().WithWords([]string{"x", "", " y ", "p,q"}))
	if err != nil {
		t.Fatal(err)
	}
	t.Logf("days=%v words=%q gotWords=%q", ok.XDays, ok.XWords, gotWords)
}

func TestNestedEmptyInner(t *testing.T) {
	defer func() {
		if r := recover(); r != nil {
			t.Errorf("panic: %v", r)
		}
	}()
	var got [][]int32
	cli, done := setup(t, func(api *sops.ProbeAPI) {
		api.GetDaysHandler = sops.GetDaysHandlerFunc(func(p sops.GetDaysParams) middleware.Responder {
			got = p.Nested
			return sops.NewGetDaysOK()
		})
	})
	defer done()
	_, err := cli.Operations.GetDays(cops.NewGetDaysParams().WithNested([][]int32{{1}, {}, {2}}))
	if err != nil {
		t.Fatal(err)
	}
	t.Logf("nested=%v", got)
}

func TestMatrix(t *testing.T) {
	var got [][]int64
	cli, done := setup(t, func(api *sops.ProbeAPI) {
		api.PostMatrixHandler = sops.PostMatrixHandlerFunc(func(p sops.PostMatrixParams) middleware.Responder {
			got = p.Body
			return sops.NewPostMatrixOK().WithPayload(p.Body)
		})
	})
	defer done()
	ok, err := cli.Operations.PostMatrix(cops.NewPostMatrixParams().WithBody([][]int64{{1}, {}, {2}}))
	if err != nil {
		t.Fatal(err)
	}
	t.Logf("handler got=%v client got=%v", got, ok.Payload)
	if len(got) != 3 {
		t.Errorf("handler got %v", got)
	}
}

func TestSheet(t *testing.T) {
	cli, done := setup(t, func(api *sops.ProbeAPI) {
		api.GetSheetHandler = sops.GetSheetHandlerFunc(func(p sops.GetSheetParams) middleware.Responder {
			return sops.NewGetSheetOK().WithPayload(io.NopCloser(bytes.NewReader([]byte("PK\x03\x04binary"))))
		})
	})
	defer done()
	var buf bytes.Buffer
	_, err := cli.Operations.GetSheet(cops.NewGetSheetParams(), &buf)
	if err != nil {
		t.Fatal(err)
	}
	t.Logf("sheet=%q", buf.String())
	if buf.String() != "PK\x03\x04binary" {
		t.Errorf("got %q", buf.String())
	}
}

func TestOptFileOmitted(t *testing.T) {
	called := false
	cli, done := setup(t, func(api *sops.ProbeAPI) {
		api.OptFileHandler = sops.OptFileHandlerFunc(func(p sops.OptFileParams) middleware.Responder {
			called = true
			return sops.NewOptFileOK()
		})
	})
	defer done()
	_, err := cli.Operations.OptFile(cops.NewOptFileParams())
	if err != nil {
		t.Fatal(err)
	}
	if !called {
		t.Error("not called")
	}
}
