#!/bin/bash
# Reproduces violations of C04 that the UNMODIFIED tree already shows (not delivered as seeded changes).
# usage: run.sh a|b|c [worktree]
set -u
HERE="$(cd "$(dirname "$0")" && pwd)"
CASE="${1:-a}"
WT="${2:-/tmp/seed5/C04/wt}"
case "$CASE" in a) GEN=gen_demo5 ;; b|c) GEN=gen_demo2 ;; *) echo "usage: run.sh a|b|c [worktree]"; exit 2 ;; esac
export GOFLAGS=-mod=mod GOPROXY=off GOSUMDB=off GOTOOLCHAIN=local
BIN="$(mktemp -d)"
cleanup() { rm -rf "$WT/$GEN" "$BIN"; (cd "$WT" && git checkout -q go.sum go.mod 2>/dev/null); }
trap cleanup EXIT
cd "$WT" || exit 99
go build -o "$BIN/swagger" ./cmd/swagger || exit 98
rm -rf "$WT/$GEN"; mkdir -p "$WT/$GEN"
"$BIN/swagger" generate server -q -f "$HERE/$CASE/spec.yaml" -t "$WT/$GEN" --exclude-main >/dev/null 2>&1 || exit 97
"$BIN/swagger" generate client -q -f "$HERE/$CASE/spec.yaml" -t "$WT/$GEN" >/dev/null 2>&1 || exit 96
cp "$HERE/$CASE/interop_test.go" "$WT/$GEN/"
go test -count=1 -v "./$GEN/" 2>&1 | grep -v "^\s\+/\|^net/http\|^created\|^github\|^goroutine\|^panic("
