// Package model holds a model for the C16 byte-slice finding.
package model

// Level is a small unsigned number.
type Level uint8

// Reading is scanned as a model.
//
// swagger:model Reading
type Reading struct {
	// Levels of a named uint8 kind
	Levels []Level `json:"levels"`
	// Raw bytes
	Raw []byte `json:"raw"`
}
