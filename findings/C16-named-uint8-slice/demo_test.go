package c16n

import (
	"encoding/json"
	"testing"

	"github.com/go-swagger/go-swagger/c16n/model"
	"github.com/go-swagger/go-swagger/codescan"
)

func TestNamedUint8Slice(t *testing.T) {
	doc, err := codescan.Run(&codescan.Options{Packages: []string{"./model"}, WorkDir: ".", ScanModels: true})
	if err != nil {
		t.Fatal(err)
	}
	def := doc.Definitions["Reading"]
	b, _ := json.Marshal(model.Reading{Levels: []model.Level{1, 2}, Raw: []byte{1, 2}})
	t.Logf("encoding/json writes: %s", b)
	lv := def.Properties["levels"]
	sj, _ := json.Marshal(lv)
	t.Logf("scanned definition of levels: %s", sj)
	if !lv.Type.Contains("string") {
		t.Fatalf("levels is encoded as a base64 string by encoding/json but scanned as %s", sj)
	}
}
