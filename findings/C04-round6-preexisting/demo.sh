#!/bin/bash
# usage: demo.sh [worktree]   -- exits non-zero when the property C04 is violated
WT=${1:-/tmp/seed6/C04/wt}
HERE=$(cd "$(dirname "$0")" && pwd)
export GOFLAGS=-mod=mod GOPROXY=off GOSUMDB=off GOTOOLCHAIN=local
GEN=gen_demo_c04pre
BIN=$(mktemp -d)/swagger
cd "$WT" || exit 2
cleanup() {
  rm -rf "$WT/$GEN" "$(dirname "$BIN")"
  (cd "$WT" && git checkout -q go.sum go.mod 2>/dev/null)
}
trap cleanup EXIT
rm -rf "$GEN"; mkdir -p "$GEN"
go build -o "$BIN" ./cmd/swagger || exit 2
"$BIN" generate server -q -f "$HERE/spec.yml" -t "$GEN" --exclude-main >/dev/null 2>&1 || { echo "server generation failed"; exit 2; }
"$BIN" generate client -q -f "$HERE/spec.yml" -t "$GEN" >/dev/null 2>&1 || { echo "client generation failed"; exit 2; }
cp "$HERE/demo_test.go" "$GEN/demo_test.go"
go test -v -vet=off -count=1 "./$GEN/"
rc=$?
exit $rc
