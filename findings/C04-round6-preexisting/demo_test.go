package demo

import (
	"net/http/httptest"
	"net/url"
	"testing"

	"github.com/go-openapi/loads"
	httptransport "github.com/go-openapi/runtime/client"
	"github.com/go-openapi/runtime/middleware"
	"github.com/go-openapi/strfmt"
	"github.com/go-openapi/swag"

	"github.com/go-swagger/go-swagger/gen_demo_c04pre/client"
	cops "github.com/go-swagger/go-swagger/gen_demo_c04pre/client/operations"
	"github.com/go-swagger/go-swagger/gen_demo_c04pre/restapi"
	sops "github.com/go-swagger/go-swagger/gen_demo_c04pre/restapi/operations"
)

func TestPre(t *testing.T) {
	doc, err := loads.Embedded(restapi.SwaggerJSON, restapi.FlatSwaggerJSON)
	if err != nil {
		t.Fatal(err)
	}
	api := sops.NewPreAPI(doc)
	api.Logger = t.Logf
	var nums []*int64
	api.PostNumsHandler = sops.PostNumsHandlerFunc(func(p sops.PostNumsParams) middleware.Responder {
		nums = p.Body
		return sops.NewPostNumsOK()
	})
	listed := false
	api.ListThingsHandler = sops.ListThingsHandlerFunc(func(p sops.ListThingsParams) middleware.Responder {
		listed = true
		return sops.NewListThingsOK()
	})
	var a string
	api.DelFormHandler = sops.DelFormHandlerFunc(func(p sops.DelFormParams) middleware.Responder {
		a = p.A
		return sops.NewDelFormOK()
	})
	srv := httptest.NewServer(api.Serve(nil))
	defer srv.Close()
	u, _ := url.Parse(srv.URL)
	cl := client.New(httptransport.New(u.Host, client.DefaultBasePath, []string{"http"}), strfmt.Default)

	_, err = cl.Operations.PostNums(cops.NewPostNumsParams().WithBody([]*int64{swag.Int64(1), nil, swag.Int64(3)}))
	t.Logf("postNums err=%v handler got %d items", err, len(nums))
	if len(nums) != 3 {
		t.Errorf("nullable items dropped: %v", nums)
	}
	_, err = cl.Operations.ListThings(cops.NewListThingsParams())
	t.Logf("listThings err=%v listed=%v", err, listed)
	if err != nil || !listed {
		t.Errorf("trailing slash path not served: %v", err)
	}
	_, err = cl.Operations.DelForm(cops.NewDelFormParams().WithA("x"))
	t.Logf("delForm err=%v a=%q", err, a)
	if err != nil || a != "x" {
		t.Errorf("DELETE with formData: %v a=%q", err, a)
	}
}
