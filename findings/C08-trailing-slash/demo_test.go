package gen_c08c

import (
	"io"
	"net/http/httptest"
	"testing"

	"github.com/go-openapi/loads"
	"github.com/go-openapi/runtime/middleware"

	"github.com/go-swagger/go-swagger/gen_c08c/restapi"
	"github.com/go-swagger/go-swagger/gen_c08c/restapi/operations"
)

func TestSlash(t *testing.T) {
	doc, err := loads.Embedded(restapi.SwaggerJSON, restapi.FlatSwaggerJSON)
	if err != nil {
		t.Fatal(err)
	}
	api := operations.NewSlashAPI(doc)
	api.ListItemsHandler = operations.ListItemsHandlerFunc(func(p operations.ListItemsParams) middleware.Responder {
		return operations.NewListItemsOK().WithPayload("noslash")
	})
	api.ListItemsSlashHandler = operations.ListItemsSlashHandlerFunc(func(p operations.ListItemsSlashParams) middleware.Responder {
		return operations.NewListItemsSlashOK().WithPayload("slash")
	})
	srv := httptest.NewServer(api.Serve(nil))
	defer srv.Close()
	for path, want := range map[string]string{"/api/items": "\"noslash\"\n", "/api/items/": "\"slash\"\n"} {
		resp, err := srv.Client().Get(srv.URL + path)
		if err != nil {
			t.Fatal(err)
		}
		b, _ := io.ReadAll(resp.Body)
		resp.Body.Close()
		t.Logf("%s -> %d %q", path, resp.StatusCode, b)
		if string(b) != want {
			t.Errorf("%s: got %d %q, want %q", path, resp.StatusCode, b, want)
		}
	}
}
