// Package model holds a model for the multi-name field finding.
package model

// Point is scanned as a model.
//
// swagger:model Point
type Point struct {
	// coordinates
	X, Y float64
	// label
	Label string `json:"label"`
}
