package c16m

import (
	"encoding/json"
	"testing"

	"github.com/go-swagger/go-swagger/c16m/model"
	"github.com/go-swagger/go-swagger/codescan"
)

func TestMultiNameField(t *testing.T) {
	doc, err := codescan.Run(&codescan.Options{Packages: []string{"./model"}, WorkDir: ".", ScanModels: true})
	if err != nil {
		t.Fatal(err)
	}
	def := doc.Definitions["Point"]
	b, _ := json.Marshal(model.Point{X: 1, Y: 2, Label: "p"})
	sj, _ := json.Marshal(def)
	t.Logf("encoding/json writes %s\nscanned: %s", b, sj)
	for _, k := range []string{"X", "Y", "label"} {
		if _, ok := def.Properties[k]; !ok {
			t.Errorf("property %s written by encoding/json is missing from the scanned definition", k)
		}
	}
}
