// Package model holds models.
package model

// Level is an enum.
//
// swagger:enum Level
type Level int

const (
	// Low level
	Low Level = 0x1
	// High level
	High Level = 0x10
)

// M is a model.
//
// swagger:model
type M struct {
	L Level `json:"l"`
}
