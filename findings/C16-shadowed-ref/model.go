// Package model holds models.
package model

// Inner is referenced.
//
// swagger:model
type Inner struct {
	N int `json:"n"`
}

// Base is embedded.
type Base struct {
	Ref   Inner  `json:"ref"`
	Plain string `json:"plain"`
}

// M is a model: encoding/json writes {"ref":"x","plain":{"n":1}}.
//
// swagger:model
type M struct {
	Base
	Ref   string `json:"ref"`
	Plain Inner  `json:"plain"`
}
