// Package model holds models.
package model

// MyInt is a defined integer.
type MyInt int

// Flags is a defined bool
type Flags bool

// M is a model.
//
// swagger:model
type M struct {
	A MyInt   `json:"a,string"`
	B byte    `json:"b,string"`
	C []int   `json:"c,string"`
	D *MyInt  `json:"d,string"`
	E Flags   `json:"e,string"`
	F float64 `json:"f,string"`
	G rune    `json:"g,string"`
}
