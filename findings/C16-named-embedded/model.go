// Package model holds models.
package model

// Base is embedded.
type Base struct {
	ID int64 `json:"id"`
}

// Audit is embedded.
type Audit struct {
	Rev int `json:"rev"`
}

// M is a model: encoding/json writes {"base":{"id":1},"rev":2,"title":"t"}.
//
// swagger:model
type M struct {
	Base  `json:"base"`
	Audit
	Title string `json:"title"`
}
