package gen_c05

import (
	"encoding/json"
	"testing"

	"github.com/go-swagger/go-swagger/gen_c05/models"
)

func TestRoundTrip(t *testing.T) {
	var p models.Plain
	if err := json.Unmarshal([]byte(`{"pack_size":3}`), &p); err != nil || p.PackSize != 3 {
		t.Fatalf("plain: %v %+v", err, p)
	}
	var d models.Dog
	if err := json.Unmarshal([]byte(`{"petType":"Dog","name":"rex","pack_size":3}`), &d); err != nil {
		t.Fatal(err)
	}
	out, _ := json.Marshal(&d)
	t.Logf("dog: %+v -> %s", d, out)
	if d.PackSize != 3 {
		t.Fatalf("pack_size lost on decode: %+v", d)
	}
	var m map[string]interface{}
	json.Unmarshal(out, &m)
	if _, ok := m["pack_size"]; !ok {
		t.Fatalf("pack_size lost on encode: %s", out)
	}
}
