package gen_c05

import (
	"encoding/json"
	"testing"

	"github.com/go-swagger/go-swagger/gen_c05/models"
)

func TestKennel(t *testing.T) {
	var k models.Kennel
	in := `{"best_dog":{"petType":"Dog","name":"rex","pack_size":3},"kennel_size":7}`
	if err := json.Unmarshal([]byte(in), &k); err != nil {
		t.Fatal(err)
	}
	out, _ := json.Marshal(&k)
	t.Logf("kennel: %+v -> %s", k, out)
	var m map[string]interface{}
	json.Unmarshal(out, &m)
	if _, ok := m["kennel_size"]; !ok {
		t.Errorf("kennel_size lost: %s", out)
	}
	if _, ok := m["best_dog"]; !ok {
		t.Errorf("best_dog lost: %s", out)
	}
}
