// Package api has routes.
package api

// swagger:route GET /a listA
//
// responses:
//   200: ok

// ListAParams are the params.
//
// swagger:parameters listA
type ListAParams struct {
	// in: query
	A, B string
}

// OK is ok.
//
// swagger:response ok
type OK struct {
	// in: header
	X, Y int
}
