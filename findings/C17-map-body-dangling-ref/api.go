// Package api has routes.
package api

// swagger:route POST /a postA
//
// responses:
//   200: description: ok

// Other is only referenced from a map.
type Other struct {
	N int `json:"n"`
}

// PostAParams are the params.
//
// swagger:parameters postA
type PostAParams struct {
	// in: body
	Body map[string]Other
}
