package gen_hdr

import (
	"net/http"
	"net/http/httptest"
	"net/url"
	"testing"

	httptransport "github.com/go-openapi/runtime/client"
	"github.com/go-openapi/strfmt"

	"github.com/go-swagger/go-swagger/gen_hdr/client"
	"github.com/go-swagger/go-swagger/gen_hdr/client/operations"
)

func TestHeaderArrayOfDates(t *testing.T) {
	srv := httptest.NewServer(http.HandlerFunc(func(w http.ResponseWriter, r *http.Request) {
		w.Header().Set("X-Dates", "2020-01-02,2021-03-04")
		w.Header().Set("X-Day", "2020-01-02")
		w.WriteHeader(200)
	}))
	defer srv.Close()
	u, _ := url.Parse(srv.URL)
	tr := httptransport.New(u.Host, "/api", []string{"http"})
	c := client.New(tr, strfmt.Default)
	res, err := c.Operations.GetDates(operations.NewGetDatesParams())
	if err != nil {
		t.Fatal(err)
	}
	if len(res.XDates) != 2 || res.XDates[1].String() != "2021-03-04" || res.XDay.String() != "2020-01-02" {
		t.Fatalf("got %v %v", res.XDates, res.XDay)
	}
}
