// Package model holds models.
package model

// Inner is self-referential.
type Inner struct {
	Next *Inner `json:"next"`
	V    int    `json:"v"`
}

// AM is an alias model.
//
// swagger:model
type AM = Inner
